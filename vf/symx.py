"""symx -- a small path-exploring symbolic executor over z3.

The code under test is ordinary Python imported from the repository.  Inputs
are proxies (SymInt / SymBool / SymReal) that build z3 terms; every branch on
a proxy is decided by z3 (both sides feasible => fork, the alternative is
queued as a decision prefix and re-executed from the start).  Values that must
become concrete (list index, hash, range, numpy, ...) are concretised to a
model value and the alternative "!= v" is queued, which is exhaustive because
every harness bounds such variables.

Verdict for one exploration: the path tree was exhausted, no solver answer was
`unknown`, and on every path every `check` was valid under the path condition.
"""
from __future__ import annotations

import fractions
import numbers
import time

import z3

Fraction = fractions.Fraction


class Assume(BaseException):
    """assumption not satisfiable on this path: the path is dropped"""


class Stop(BaseException):
    """path ended after a recorded violation"""


class Abort(BaseException):
    """budget exhausted / too many violations: exploration ends inconclusive"""


class EngineError(Exception):
    pass


_CUR = None  # the Explorer currently running a path (None => engine off)
PATH_HOOKS = []  # callables run at the start of every path (e.g. clearing memo caches of the code under test)


def cur():
    return _CUR


# --------------------------------------------------------------------------
# conversions

_IVAL = {}


def _ival(n):
    """cached z3 integer numeral"""
    v = _IVAL.get(n)
    if v is None:
        v = z3.IntVal(n)
        if -4096 <= n <= 4096:
            _IVAL[n] = v
    return v


_ATOMS = {}  # ast id -> z3 Int expression (kept alive so ids stay stable)


def _atom(z):
    aid = z.get_id()
    if aid not in _ATOMS:
        _ATOMS[aid] = z
    return aid


def _is_sym(x):
    return isinstance(x, (SymInt, SymReal, SymBool))


def _znum(x):
    """python/numpy number or proxy -> z3 arithmetic term (None if not a number)"""
    if isinstance(x, (SymInt, SymReal)):
        return x.z
    if isinstance(x, SymBool):
        return z3.If(x.z, _ival(1), _ival(0))
    if isinstance(x, bool):
        return _ival(int(x))
    if isinstance(x, numbers.Integral):
        return _ival(int(x))
    if isinstance(x, Fraction):
        return z3.Q(x.numerator, x.denominator)
    if isinstance(x, numbers.Real):
        f = float(x)
        if f != f or f in (float('inf'), float('-inf')):
            return None
        fr = Fraction(f)
        return z3.Q(fr.numerator, fr.denominator)
    return None


def _wrap(z):
    """z3 arithmetic term -> python number or proxy"""
    z = z3.simplify(z)
    if z3.is_int_value(z):
        return z.as_long()
    if z3.is_rational_value(z):
        return Fraction(z.numerator_as_long(), z.denominator_as_long())
    if z.sort().kind() == z3.Z3_INT_SORT:
        return SymInt({_atom(z): 1}, 0)
    return SymReal(z)


def _wrapb(z):
    z = z3.simplify(z)
    if z3.is_true(z):
        return True
    if z3.is_false(z):
        return False
    return SymBool(None, None, z)


def _zbool(x):
    if isinstance(x, SymBool):
        return x.z
    if isinstance(x, (bool,)):
        return z3.BoolVal(x)
    if isinstance(x, SymInt):
        return x.z != 0
    return None


# --------------------------------------------------------------------------
# proxies


def _restore(key):
    return _CUR.pickled[key]


def _mk(lin, c):
    lin = {a: k for a, k in lin.items() if k != 0}
    if not lin:
        return c
    return SymInt(lin, c)


def _isint(o):
    return isinstance(o, numbers.Integral)


class SymInt:
    """integer proxy: a linear form  c + sum(coeff * atom)  kept in python; atoms are z3 Int terms"""

    __slots__ = ('lin', 'c', '_zc')

    def __init__(self, lin, c=0):
        self.lin = lin
        self.c = c
        self._zc = None

    @property
    def z(self):
        z = self._zc
        if z is None:
            terms = []
            for aid, k in self.lin.items():
                a = _ATOMS[aid]
                terms.append(a if k == 1 else _ival(k) * a)
            if self.c:
                terms.append(_ival(self.c))
            z = terms[0] if len(terms) == 1 else z3.Sum(terms)
            self._zc = z
        return z

    def _eval(self):
        """concrete value if every atom is already pinned on this path, else None"""
        known = _CUR.known
        tot = self.c
        for aid, k in self.lin.items():
            v = known.get(aid)
            if v is None:
                return None
            tot += k * v
        return tot

    def _reduced(self):
        """same value with the pinned atoms folded in (int or smaller SymInt)"""
        known = _CUR.known
        if not known:
            return self
        tot = self.c
        lin = None
        for aid, k in self.lin.items():
            v = known.get(aid)
            if v is not None:
                tot += k * v
                if lin is None:
                    lin = dict(self.lin)
                del lin[aid]
        if lin is None:
            return self
        return _mk(lin, tot)

    def __reduce__(self):
        c = _CUR
        key = len(c.pickled)
        c.pickled.append(self)
        return (_restore, (key,))

    def __repr__(self):
        return f'<SymInt {self.z}>'

    __str__ = __repr__

    def __format__(self, spec):
        return repr(self)

    # ---- linear arithmetic in python
    def __add__(self, o):
        if isinstance(o, SymInt):
            lin = dict(self.lin)
            for a, k in o.lin.items():
                lin[a] = lin.get(a, 0) + k
            return _mk(lin, self.c + o.c)
        if _isint(o):
            return SymInt(self.lin, self.c + int(o))
        if isinstance(o, SymBool):
            return self + o._asint()
        oz = _znum(o)
        if oz is None:
            return NotImplemented
        return _wrap(self.z + oz)

    __radd__ = __add__

    def __neg__(self):
        return SymInt({a: -k for a, k in self.lin.items()}, -self.c)

    def __pos__(self):
        return self

    def __sub__(self, o):
        if isinstance(o, SymInt):
            lin = dict(self.lin)
            for a, k in o.lin.items():
                lin[a] = lin.get(a, 0) - k
            return _mk(lin, self.c - o.c)
        if _isint(o):
            return SymInt(self.lin, self.c - int(o))
        if isinstance(o, SymBool):
            return self - o._asint()
        oz = _znum(o)
        if oz is None:
            return NotImplemented
        return _wrap(self.z - oz)

    def __rsub__(self, o):
        if _isint(o):
            return SymInt({a: -k for a, k in self.lin.items()}, int(o) - self.c)
        oz = _znum(o)
        if oz is None:
            return NotImplemented
        return _wrap(oz - self.z)

    def __mul__(self, o):
        if _isint(o):
            k = int(o)
            return _mk({a: c * k for a, c in self.lin.items()}, self.c * k)
        if isinstance(o, SymInt):
            v = o._eval()
            if v is not None:
                return self * v
            v = self._eval()
            if v is not None:
                return o * v
            return _wrap(self.z * o.z)
        if isinstance(o, SymBool):
            return self * o._asint()
        oz = _znum(o)
        if oz is None:
            return NotImplemented
        return _wrap(self.z * oz)

    __rmul__ = __mul__

    def __abs__(self):
        v = self._eval()
        if v is not None:
            return abs(v)
        z = self.z
        return _wrap(z3.If(z >= 0, z, -z))

    def __pow__(self, o):
        if _isint(o) and 0 <= int(o) <= 4:
            r = 1
            for _ in range(int(o)):
                r = r * self
            return r
        return NotImplemented

    def __truediv__(self, o):
        oz = _znum(o)
        if oz is None:
            return NotImplemented
        if o == 0:
            raise ZeroDivisionError('division by zero')
        return _wrap(z3.ToReal(self.z) / oz)

    def __rtruediv__(self, o):
        oz = _znum(o)
        if oz is None:
            return NotImplemented
        if self == 0:
            raise ZeroDivisionError('division by zero')
        oz = z3.ToReal(oz) if oz.sort().kind() == z3.Z3_INT_SORT else oz
        return _wrap(oz / self.z)

    def __floordiv__(self, o):
        if _isint(o) and int(o) > 0:
            v = self._eval()
            if v is not None:
                return v // int(o)
            return _wrap(self.z / _ival(int(o)))
        if _znum(o) is None:
            return NotImplemented
        return int(self) // (int(o) if isinstance(o, SymInt) else o)

    def __rfloordiv__(self, o):
        return o // int(self)

    def __mod__(self, o):
        if _isint(o) and int(o) > 0:
            v = self._eval()
            if v is not None:
                return v % int(o)
            return _wrap(self.z % _ival(int(o)))
        if _znum(o) is None:
            return NotImplemented
        return int(self) % (int(o) if isinstance(o, SymInt) else o)

    def __rmod__(self, o):
        return o % int(self)

    # ---- comparisons: kept as (op, linear form) until a verdict is needed
    def _cmp(self, o, op):
        if isinstance(o, SymInt) or _isint(o):
            d = self - o
            if not isinstance(d, SymInt):
                return _CMP[op](d, 0)
            return SymBool(op, d, None)
        if isinstance(o, SymBool):
            return self._cmp(o._asint(), op)
        oz = _znum(o)
        if oz is None:
            return NotImplemented
        return _wrapb(_ZCMP[op](self.z, oz))

    def __lt__(self, o):
        return self._cmp(o, 'lt')

    def __le__(self, o):
        return self._cmp(o, 'le')

    def __gt__(self, o):
        return self._cmp(o, 'gt')

    def __ge__(self, o):
        return self._cmp(o, 'ge')

    def __eq__(self, o):
        return self._cmp(o, 'eq')

    def __ne__(self, o):
        return self._cmp(o, 'ne')

    def __bool__(self):
        return bool(self != 0)

    def __index__(self):
        return _CUR.concretize_symint(self)

    __int__ = __index__

    def __float__(self):
        # int -> float is where python integers lose exactness: if the value is not bounded away from it, the first values
        # tried are just beyond 2**53 (the engine cannot model binary64, so this is a boundary-value probe, not a proof)
        return float(_CUR.concretize_symint(self, prefer=_FLOAT_EDGE))

    def __complex__(self):
        return complex(float(self))

    def __hash__(self):
        return hash(_CUR.concretize_symint(self))

    def __round__(self, n=None):
        return self

    def __trunc__(self):
        return self

    __floor__ = __trunc__
    __ceil__ = __trunc__


_FLOAT_EDGE = (2 ** 53 + 1, -(2 ** 53 + 1))
_CMP = {'lt': lambda a, b: a < b, 'le': lambda a, b: a <= b, 'gt': lambda a, b: a > b,
        'ge': lambda a, b: a >= b, 'eq': lambda a, b: a == b, 'ne': lambda a, b: a != b}
_ZCMP = _CMP
_NEG = {'lt': 'ge', 'le': 'gt', 'gt': 'le', 'ge': 'lt', 'eq': 'ne', 'ne': 'eq'}


class SymReal:
    """real proxy backed directly by a z3 Real term (reward parameters, rng.random draws)"""

    __slots__ = ('z',)

    def __init__(self, z):
        self.z = z

    def __reduce__(self):
        c = _CUR
        key = len(c.pickled)
        c.pickled.append(self)
        return (_restore, (key,))

    def __repr__(self):
        return f'<SymReal {self.z}>'

    __str__ = __repr__

    def __format__(self, spec):
        return repr(self)

    def _bin(self, other, f):
        o = _znum(other)
        if o is None:
            return NotImplemented
        return _wrap(f(self.z, o))

    def _cmp(self, other, f):
        o = _znum(other)
        if o is None:
            return NotImplemented
        return _wrapb(f(self.z, o))

    def __add__(self, o):
        return self._bin(o, lambda a, b: a + b)

    def __radd__(self, o):
        return self._bin(o, lambda a, b: b + a)

    def __sub__(self, o):
        return self._bin(o, lambda a, b: a - b)

    def __rsub__(self, o):
        return self._bin(o, lambda a, b: b - a)

    def __mul__(self, o):
        return self._bin(o, lambda a, b: a * b)

    def __rmul__(self, o):
        return self._bin(o, lambda a, b: b * a)

    def __neg__(self):
        return _wrap(-self.z)

    def __pos__(self):
        return self

    def __abs__(self):
        return _wrap(z3.If(self.z >= 0, self.z, -self.z))

    def __pow__(self, o):
        if _isint(o) and 0 <= int(o) <= 4:
            r = 1
            for _ in range(int(o)):
                r = r * self
            return r
        return NotImplemented

    def __truediv__(self, o):
        oz = _znum(o)
        if oz is None:
            return NotImplemented
        if o == 0:
            raise ZeroDivisionError('division by zero')
        return _wrap(self.z / oz)

    def __rtruediv__(self, o):
        oz = _znum(o)
        if oz is None:
            return NotImplemented
        if self == 0:
            raise ZeroDivisionError('division by zero')
        oz = z3.ToReal(oz) if oz.sort().kind() == z3.Z3_INT_SORT else oz
        return _wrap(oz / self.z)

    def __lt__(self, o):
        return self._cmp(o, lambda a, b: a < b)

    def __le__(self, o):
        return self._cmp(o, lambda a, b: a <= b)

    def __gt__(self, o):
        return self._cmp(o, lambda a, b: a > b)

    def __ge__(self, o):
        return self._cmp(o, lambda a, b: a >= b)

    def __eq__(self, o):
        return self._cmp(o, lambda a, b: a == b)

    def __ne__(self, o):
        return self._cmp(o, lambda a, b: a != b)

    def __bool__(self):
        return bool(self != 0)

    def __float__(self):
        return float(_CUR.concretize_real(self.z))

    def __hash__(self):
        return hash(_CUR.concretize_real(self.z))


class SymBool:
    """boolean proxy: either a comparison `d <op> 0` over a python-side linear form, or a z3 Bool term"""

    __slots__ = ('op', 'd', '_zc')

    def __init__(self, op, d, z):
        self.op, self.d, self._zc = op, d, z

    @property
    def z(self):
        z = self._zc
        if z is None:
            z = _ZCMP[self.op](self.d.z, _ival(0))
            self._zc = z
        return z

    def _eval(self):
        if self.op is None:
            return None
        v = self.d._eval()
        if v is None:
            return None
        return _CMP[self.op](v, 0)

    def _reduced_z(self):
        """z3 term with the pinned atoms folded in (may be a python bool)"""
        if self.op is None:
            z = self._zc
            if z.num_args() == 0 or z.get_id() in _CUR.bdec:
                return z
            return _CUR._reduce(z)
        d = self.d._reduced()
        if not isinstance(d, SymInt):
            return _CMP[self.op](d, 0)
        if d is self.d:
            return self.z
        return _ZCMP[self.op](d.z, _ival(0))

    def __reduce__(self):
        c = _CUR
        key = len(c.pickled)
        c.pickled.append(self)
        return (_restore, (key,))

    def __repr__(self):
        return f'<SymBool {self.z}>'

    def __bool__(self):
        v = self._eval()
        if v is not None:
            return v
        return _CUR.branch(self._reduced_z())

    def __index__(self):
        return int(bool(self))

    __int__ = __index__

    def __hash__(self):
        return hash(bool(self))

    def _bin(self, o, f):
        oz = _zbool(o)
        if oz is None:
            return NotImplemented
        return _wrapb(f(self.z, oz))

    def __and__(self, o):
        return self._bin(o, z3.And)

    __rand__ = __and__

    def __or__(self, o):
        return self._bin(o, z3.Or)

    __ror__ = __or__

    def __xor__(self, o):
        return self._bin(o, z3.Xor)

    __rxor__ = __xor__

    def __eq__(self, o):
        if isinstance(o, numbers.Integral) and not isinstance(o, bool) or isinstance(o, SymInt):
            return self._asint() == o
        return self._bin(o, lambda a, b: a == b)

    def __ne__(self, o):
        if isinstance(o, numbers.Integral) and not isinstance(o, bool) or isinstance(o, SymInt):
            return self._asint() != o
        return self._bin(o, lambda a, b: a != b)

    def __invert__(self):
        return sym_not(self)

    # arithmetic on booleans (sum of flags)
    def _asint(self):
        v = self._eval()
        if v is not None:
            return int(v)
        return _wrap(z3.If(self.z, _ival(1), _ival(0)))

    def __add__(self, o):
        return self._asint() + o

    def __radd__(self, o):
        return o + self._asint()

    def __mul__(self, o):
        return self._asint() * o

    __rmul__ = __mul__


def sym_not(x):
    """logical negation that keeps a SymBool symbolic (python `not` would branch)"""
    if isinstance(x, SymBool):
        if x.op is not None:
            return SymBool(_NEG[x.op], x.d, None)
        return _wrapb(z3.Not(x.z))
    return not x


def _ev(x):
    """(is_concrete, value) of a possibly symbolic boolean under the pinned atoms"""
    if isinstance(x, SymBool):
        v = x._eval() if _CUR is not None else None
        return (v is not None), v
    return True, bool(x)


def sym_and(*xs):
    zs = []
    for x in xs:
        conc, v = _ev(x)
        if conc:
            if not v:
                return False
        else:
            zs.append(x.z)
    if not zs:
        return True
    if len(zs) == 1:
        return _wrapb(zs[0])
    return _wrapb(z3.And(*zs))


def sym_or(*xs):
    zs = []
    for x in xs:
        conc, v = _ev(x)
        if conc:
            if v:
                return True
        else:
            zs.append(x.z)
    if not zs:
        return False
    if len(zs) == 1:
        return _wrapb(zs[0])
    return _wrapb(z3.Or(*zs))


def sym_implies(a, b):
    return sym_or(sym_not(a), b)


def sym_ite(c, a, b):
    """value-level if-then-else on numbers without forking"""
    conc, v = _ev(c)
    if conc:
        return a if v else b
    az, bz = _znum(a), _znum(b)
    if az is None or bz is None:
        return a if bool(c) else b
    if az.sort().kind() != bz.sort().kind():
        az = z3.ToReal(az) if az.sort().kind() == z3.Z3_INT_SORT else az
        bz = z3.ToReal(bz) if bz.sort().kind() == z3.Z3_INT_SORT else bz
    return _wrap(z3.If(c.z, az, bz))


# --------------------------------------------------------------------------
# explorer


def _pyval(v):
    if z3.is_int_value(v):
        return v.as_long()
    if z3.is_rational_value(v):
        return Fraction(v.numerator_as_long(), v.denominator_as_long())
    if z3.is_true(v):
        return True
    if z3.is_false(v):
        return False
    if z3.is_algebraic_value(v):
        a = v.approx(20)
        return Fraction(a.numerator_as_long(), a.denominator_as_long())
    raise EngineError(f'cannot convert model value {v}')


class Violation:
    def __init__(self, label, message, inputs, trace):
        self.label = label
        self.message = message
        self.inputs = inputs
        self.trace = trace

    def as_dict(self):
        return dict(label=self.label, message=self.message, inputs=self.inputs)


class Explorer:
    """Explores all paths of fn(sx) where sx is this object."""

    symbolic = True

    def __init__(self, *, time_limit=600.0, max_paths=10_000_000, max_violations=3,
                 max_concretize=4096, solver_timeout_ms=20_000):
        self.solver = z3.Solver()
        self.solver.set('timeout', solver_timeout_ms)
        self.time_limit = time_limit
        self.max_paths = max_paths
        self.max_violations = max_violations
        self.max_concretize = max_concretize
        # statistics
        self.queries = 0
        self.solver_s = 0.0
        self.paths = 0
        self.paths_ok = 0
        self.paths_assume = 0
        self.forks = 0
        self.concretizations = 0
        self.max_depth = 0
        self.unknowns = 0
        self.checks_reached = 0
        self.checks_symbolic = 0
        self.cover_counts = {}
        self.nontrivial_paths = 0
        self.violations = []
        self.inconclusive_reasons = []
        self.samples = []
        self.exhausted = False
        self.bag = {}  # persists across paths: cross-path (existential) bookkeeping by harnesses
        self.export_vcs = None  # list collecting (label, smt2) of symbolically decided assertions when enabled
        self.export_cap = 0
        # per path
        self.prefix = []
        self.decisions = []
        self.pos = 0
        self.model = None
        self.inputs = {}
        self.pickled = []
        self.notes = {}
        self.subs = []
        self.known = {}
        self.bdec = {}
        self.asserted = []
        self._path_nontrivial = False
        self._stack = []
        self._t0 = 0.0

    # ---- solver plumbing
    def _check(self, *extra):
        t = time.perf_counter()
        r = self.solver.check(*extra)
        self.solver_s += time.perf_counter() - t
        self.queries += 1
        if r == z3.unknown:
            self.unknowns += 1
        return r

    def _add(self, c, keeps_model=False):
        if self.pos < len(self.prefix):
            return  # replay phase: this constraint was pre-loaded with the queued prefix
        self.solver.add(c)
        self.asserted.append(c)
        if self.model is not None and not keeps_model:
            try:
                if not z3.is_true(self.model.eval(c, model_completion=True)):
                    self.model = None
            except z3.Z3Exception:
                self.model = None

    def _get_model(self):
        if self.model is None:
            r = self._check()
            if r != z3.sat:
                raise EngineError(f'path condition expected sat, got {r}')
            self.model = self.solver.model()
        return self.model

    def _sat_with(self, c):
        """is pc /\\ c satisfiable?  returns (result, model or None)"""
        self.solver.push()
        try:
            self.solver.add(c)
            r = self._check()
            m = self.solver.model() if r == z3.sat else None
        finally:
            self.solver.pop()
        return r, m

    def _budget(self):
        if time.perf_counter() - self._t0 > self.time_limit:
            self.inconclusive_reasons.append('time limit')
            self._aborting = True  # a C boundary (numpy, ...) may turn the Abort into another exception: remember why
            raise Abort()

    # ---- decisions
    def _reduce(self, z):
        """fold the pinned atoms into a z3 term"""
        if self.subs:
            z = z3.substitute(z, *self.subs)
        return z3.simplify(z)

    def branch(self, z):
        if isinstance(z, bool):
            return z
        if z3.is_true(z):
            return True
        if z3.is_false(z):
            return False
        zid = z.get_id()
        k = self.bdec.get(zid)
        if k is not None:  # the same condition was already decided on this path (the term is kept alive, so its id is not reused)
            return k[0]
        if self.pos < len(self.prefix):
            kind, b = self.prefix[self.pos]
            if kind != 'b':
                raise EngineError('non-deterministic harness: expected branch decision')
            self.pos += 1
            self.decisions.append(('b', b))
            self.bdec[zid] = (b, z)
            return b
        self._budget()
        m = self._get_model()
        b = z3.is_true(m.eval(z, model_completion=True))
        other = z3.Not(z) if b else z
        r, m2 = self._sat_with(other)
        if r == z3.sat:
            self.forks += 1
            self._stack.append((self.decisions + [('b', not b)], m2, self.asserted + [other]))
        elif r == z3.unknown:
            self.inconclusive_reasons.append('solver unknown at branch')
        self.decisions.append(('b', b))
        self.pos += 1
        if self.pos > self.max_depth:
            self.max_depth = self.pos
        self._add(z if b else z3.Not(z), keeps_model=True)
        self.bdec[zid] = (b, z)
        return b

    def _pin(self, z, v, aid=None, replay=False):
        zv = _znum(v)
        if not replay:
            self._add(z == zv, keeps_model=True)
        self.subs.append((z, zv))
        if aid is not None:
            self.known[aid] = v

    def _concretize(self, z, real=False, aid=None, prefer=()):
        excluded = []
        if self.pos < len(self.prefix):
            kind, val = self.prefix[self.pos]
            if kind == 'v':
                self.pos += 1
                self.decisions.append(('v', val))
                self._pin(z, val, aid, replay=True)
                return val
            if kind != 'x':
                raise EngineError('non-deterministic harness: expected value decision')
            excluded = list(val)  # the exclusions were pre-loaded with the queued prefix
            self.prefix = self.prefix[:self.pos]  # live from here on
        self._budget()
        if len(excluded) >= self.max_concretize:
            self.inconclusive_reasons.append('concretisation of a variable with too many values')
            raise Abort()
        m = self._get_model()
        v = _pyval(m.eval(z, model_completion=True))
        for pv in prefer:  # boundary values first, when feasible and not tried yet
            if pv not in excluded and pv != v:
                r0, m0 = self._sat_with(z == _znum(pv))
                if r0 == z3.sat:
                    v, self.model = pv, m0
                    break
        if real and excluded:
            # a real with more than one value cannot be enumerated
            self.inconclusive_reasons.append('concretisation of an unconstrained real')
            raise Abort()
        self.concretizations += 1
        ne = z != _znum(v)
        r, m2 = self._sat_with(ne)
        if r == z3.sat:
            if real:
                self.inconclusive_reasons.append('concretisation of an unconstrained real')
                raise Abort()
            self.forks += 1
            self._stack.append((self.decisions + [('x', excluded + [v])], m2, self.asserted + [ne]))
        elif r == z3.unknown:
            self.inconclusive_reasons.append('solver unknown at concretisation')
        self.decisions.append(('v', v))
        self.pos += 1
        if self.pos > self.max_depth:
            self.max_depth = self.pos
        self._pin(z, v, aid)
        return v

    def _concretize_atom(self, aid, prefer=()):
        z = _ATOMS[aid]
        if z.num_args() > 0 and self.subs:  # compound atom: may already be determined by pinned atoms
            zr = self._reduce(z)
            if z3.is_int_value(zr):
                v = zr.as_long()
                self.known[aid] = v
                return v
        return self._concretize(z, aid=aid, prefer=prefer)

    def concretize_symint(self, s, prefer=()):
        v = s._eval()
        if v is not None:
            return v
        known = self.known
        for aid in list(s.lin):
            if aid not in known:
                self._concretize_atom(aid, prefer)
        return s._eval()

    def concretize_real(self, z):
        z = self._reduce(z)
        if z3.is_int_value(z) or z3.is_rational_value(z):
            return _pyval(z)
        return self._concretize(z, real=True)

    # ---- harness API (mirrored by Concrete below)
    def int(self, name, lo=None, hi=None):
        if name in self.inputs:  # same named input asked again (e.g. by a copy of a lazy object): same variable
            return SymInt({_atom(self.inputs[name]): 1}, 0)
        if lo is not None and hi is not None and not (lo <= hi):
            # empty interval (decided by a visible fork when the bounds are symbolic): no such input, the path is dropped
            raise Assume()
        v = z3.Int(name)
        self.inputs[name] = v
        if lo is not None:
            self._add(v >= _znum(lo))
        if hi is not None:
            self._add(v <= _znum(hi))
        return SymInt({_atom(v): 1}, 0)

    def bool(self, name):
        if name in self.inputs:
            return SymBool(None, None, self.inputs[name])
        v = z3.Bool(name)
        self.inputs[name] = v
        return SymBool(None, None, v)

    def real(self, name, lo=None, hi=None, lo_strict=False, hi_strict=False):
        if name in self.inputs:
            return SymReal(self.inputs[name])
        if lo is not None and hi is not None and not ((lo < hi) if (lo_strict or hi_strict) else (lo <= hi)):
            raise Assume()
        v = z3.Real(name)
        self.inputs[name] = v
        if lo is not None:
            self._add(v > _znum(lo) if lo_strict else v >= _znum(lo))
        if hi is not None:
            self._add(v < _znum(hi) if hi_strict else v <= _znum(hi))
        return SymReal(v)

    def choice(self, name, options):
        """one element of a finite list, chosen by a symbolic index (forks)"""
        options = list(options)
        if not options:
            raise Assume()
        i = self.int(name, 0, len(options) - 1)
        return options[int(i)]

    def assume(self, cond):
        if isinstance(cond, SymBool):
            z = cond._reduced_z()
            if isinstance(z, bool) or z3.is_true(z) or z3.is_false(z):
                if z is False or (not isinstance(z, bool) and z3.is_false(z)):
                    raise Assume()
                return
            if self.pos < len(self.prefix):
                return  # replay phase: satisfiable and pre-loaded
            if self.model is not None and z3.is_true(self.model.eval(z, model_completion=True)):
                self._add(z, keeps_model=True)
                return
            r, m = self._sat_with(z)
            if r == z3.unsat:
                raise Assume()
            if r == z3.unknown:
                self.inconclusive_reasons.append('solver unknown at assume')
                raise Assume()
            self._add(z, keeps_model=True)
            self.model = m
        elif not cond:
            raise Assume()

    def define(self, cond):
        """constraint that DEFINES fresh variables in terms of existing ones and can be met for every valuation of those (e.g. "r is a
        nearest integer of t"): added without a feasibility query.  The caller vouches for totality; Concrete checks it on replay"""
        if isinstance(cond, SymBool):
            z = cond._reduced_z()
            if isinstance(z, bool):
                if not z:
                    raise Assume()
                return
            self._add(z)
        elif not cond:
            raise Assume()

    def snapshot(self, model=None):
        m = model if model is not None else self._get_model()
        out = {}
        for name, v in self.inputs.items():
            val = _pyval(m.eval(v, model_completion=True))
            out[name] = str(val) if isinstance(val, Fraction) and val.denominator != 1 else (
                int(val) if isinstance(val, Fraction) else val)
        return out

    def check(self, cond, label, message=''):
        """assert cond on this path: valid under the path condition or a violation"""
        self.checks_reached += 1
        if isinstance(cond, SymBool):
            z = cond._reduced_z()
            if isinstance(z, bool):
                if not z:
                    self._violation(label, message, None)
                return
            if z3.is_true(z):
                return
            if self.pos < len(self.prefix):
                return  # replay phase: decided valid when this prefix was first explored
            self.checks_symbolic += 1
            if self.export_vcs is not None and len(self.export_vcs) < self.export_cap:
                # verification condition (path condition /\ not assertion) as SMT-LIB2, for an independent solver
                self.solver.push()
                self.solver.add(z3.Not(z))
                self.export_vcs.append((label, self.solver.to_smt2()))
                self.solver.pop()
            r, m = self._sat_with(z3.Not(z))
            if r == z3.unsat:
                self._add(z, keeps_model=True)
                return
            if r == z3.unknown:
                self.inconclusive_reasons.append(f'solver unknown at check {label}')
                self._add(z)
                return
            self._violation(label, message, m)
        elif not cond:
            self._violation(label, message, None)

    def fail(self, label, message=''):
        self.checks_reached += 1
        self._violation(label, message, None)

    def _violation(self, label, message, model):
        snap = self.snapshot(model)
        snap_notes = dict(self.notes)
        self.violations.append(Violation(label, message, dict(inputs=snap, notes=snap_notes), list(self.decisions)))
        raise Stop()

    def cover(self, label, nontrivial=True):
        self.cover_counts[label] = self.cover_counts.get(label, 0) + 1
        if nontrivial:
            self._path_nontrivial = True

    def note(self, key, value):
        """free-form per-path annotation carried into violation records / samples"""
        self.notes[key] = value

    # ---- driver
    def explore(self, fn):
        global _CUR
        self._t0 = time.perf_counter()
        self._stack = [([], None, [])]
        prev = _CUR
        try:
            while self._stack:
                if self.paths >= self.max_paths:
                    self.inconclusive_reasons.append('path limit')
                    break
                if time.perf_counter() - self._t0 > self.time_limit:
                    self.inconclusive_reasons.append('time limit')
                    break
                prefix, model, asserted = self._stack.pop()
                self.prefix, self.decisions, self.pos = prefix, [], 0
                self.model = model
                self.asserted = asserted
                self.inputs, self.pickled, self.notes, self.subs, self.known, self.bdec = {}, [], {}, [], {}, {}
                self._path_nontrivial = False
                self.solver.push()
                if asserted:
                    self.solver.add(*asserted)
                for hook in PATH_HOOKS:
                    hook()
                _CUR = self
                self.paths += 1
                try:
                    fn(self)
                    if self.pos < len(self.prefix):
                        raise EngineError('non-deterministic harness: the re-execution ended before its decision prefix was consumed')
                    self.paths_ok += 1
                    if self._path_nontrivial:
                        self.nontrivial_paths += 1
                    if len(self.samples) < 3 and self.inputs:
                        try:
                            self.samples.append(dict(inputs=self.snapshot(), notes=dict(self.notes)))
                        except EngineError:
                            pass
                except Assume:
                    self.paths_assume += 1
                except Stop:
                    if len(self.violations) >= self.max_violations:
                        self.inconclusive_reasons.append('stopped after violations')
                        break
                except Abort:
                    break
                except EngineError:
                    raise
                except Exception as e:  # escaped the harness: a violation in itself
                    if getattr(self, '_aborting', False):
                        break  # the budget ran out inside foreign code that re-raised differently: inconclusive, not a verdict
                    import traceback
                    tb = traceback.extract_tb(e.__traceback__)
                    if harness_fault(e, tb):
                        raise EngineError(f'harness fault, not a verdict: {type(e).__name__}: {e} @ ' +
                                          '; '.join(f'{f.filename.split("/")[-1]}:{f.lineno}:{f.name}' for f in tb[-3:]))
                    where = '; '.join(f'{f.filename.split("/")[-1]}:{f.lineno}:{f.name}' for f in tb[-4:])
                    try:
                        snap = self.snapshot()
                    except EngineError:
                        snap = {}
                    self.checks_reached += 1
                    self.violations.append(Violation('uncaught-exception', f'{type(e).__name__}: {e} @ {where}',
                                                     dict(inputs=snap, notes=dict(self.notes)), list(self.decisions)))
                    if len(self.violations) >= self.max_violations:
                        self.inconclusive_reasons.append('stopped after violations')
                        break
                finally:
                    _CUR = prev
                    self.solver.pop()
            else:
                self.exhausted = True
        finally:
            _CUR = prev
        if self.inconclusive_reasons:
            self.exhausted = False
        return self

    def stats(self):
        return dict(paths=self.paths, paths_ok=self.paths_ok, paths_assume=self.paths_assume,
                    forks=self.forks, concretizations=self.concretizations, max_depth=self.max_depth,
                    queries=self.queries, solver_s=round(self.solver_s, 3), unknowns=self.unknowns,
                    checks_reached=self.checks_reached, checks_symbolic=self.checks_symbolic,
                    nontrivial_paths=self.nontrivial_paths, cover=dict(self.cover_counts),
                    exhausted=self.exhausted, inconclusive=sorted(set(self.inconclusive_reasons)))


_HERE = __file__.rsplit('/', 2)[0]  # /verif


def harness_fault(e, tb):
    """an exception born in the harness or its stubs because THEY do not support something (a missing stub method, a private
    attribute of the code under test that moved, an operator a proxy lacks) is a fault of the machinery, not a violation.
    Exceptions by which the stubs mimic the library (IndexError of a list, ValueError of numpy's Generator, the failing global
    generator) are raised on behalf of the code under test and stay violations."""
    if not tb or not tb[-1].filename.startswith(_HERE):
        return False
    if type(e).__name__ in ('GlobalRngTouched',):
        return False
    return isinstance(e, (AttributeError, TypeError, NameError, KeyError, NotImplementedError, ImportError, UnboundLocalError))


class ReplayMismatch(Exception):
    pass


class Concrete:
    """Same harness API with the engine off: inputs come from a recorded model."""

    symbolic = False

    def __init__(self, inputs):
        self.values = dict(inputs)
        self.used = set()
        self.missing = []
        self.violations = []
        self.checks_reached = 0
        self.cover_counts = {}
        self.notes = {}
        self.bag = {}

    def _get(self, name, default):
        self.used.add(name)
        if name in self.values:
            return self.values[name]
        self.missing.append(name)
        return default

    def int(self, name, lo=None, hi=None):
        v = int(self._get(name, lo if lo is not None else (hi if hi is not None else 0)))
        if (lo is not None and v < lo) or (hi is not None and v > hi):
            raise Assume()
        return v

    def bool(self, name):
        return bool(self._get(name, False))

    def real(self, name, lo=None, hi=None, lo_strict=False, hi_strict=False):
        v = Fraction(self._get(name, lo if lo is not None else 0))
        if lo is not None and (v < lo or (lo_strict and v == lo)):
            raise Assume()
        if hi is not None and (v > hi or (hi_strict and v == hi)):
            raise Assume()
        return v

    def choice(self, name, options):
        options = list(options)
        if not options:
            raise Assume()
        return options[self.int(name, 0, len(options) - 1)]

    def assume(self, cond):
        if not cond:
            raise Assume()

    define = assume

    def check(self, cond, label, message=''):
        self.checks_reached += 1
        if not cond:
            self.violations.append(dict(label=label, message=message))
            raise Stop()

    def fail(self, label, message=''):
        self.check(False, label, message)

    def cover(self, label, nontrivial=True):
        self.cover_counts[label] = self.cover_counts.get(label, 0) + 1

    def note(self, key, value):
        self.notes[key] = value


def replay(fn, inputs):
    """Run the harness with the engine off on recorded inputs.

    Returns (reproduced_violation_or_None, Concrete)."""
    global _CUR
    prev, _CUR = _CUR, None
    for hook in PATH_HOOKS:
        hook()
    cx = Concrete(inputs)
    try:
        try:
            fn(cx)
        except Assume:
            return None, cx
        except Stop:
            return cx.violations[-1], cx
        except Exception as e:  # escaped the harness
            import traceback
            tb = traceback.extract_tb(e.__traceback__)
            where = '; '.join(f'{f.filename.split("/")[-1]}:{f.lineno}:{f.name}' for f in tb[-4:])
            v = dict(label='uncaught-exception', message=f'{type(e).__name__}: {e} @ {where}')
            cx.violations.append(v)
            return v, cx
    finally:
        _CUR = prev
    return None, cx
