"""Reader for the YAML subset used by the shipped configuration files.

PyYAML is not installed in this sandbox (`import yaml` resolves to the namespace
package /repo/yaml).  Supported: block mappings, block sequences (of scalars or
mappings), flow sequences (nested), ints, floats, booleans, null, plain and
quoted strings, comments.  Anything else raises UnsupportedYaml.
"""
import re


class UnsupportedYaml(Exception):
    pass


def _scalar(tok):
    t = tok.strip()
    if t == '' or t in ('~', 'null', 'Null', 'NULL'):
        return None
    if t in ('true', 'True', 'TRUE'):
        return True
    if t in ('false', 'False', 'FALSE'):
        return False
    if (t[0] == t[-1]) and t[0] in '"\'' and len(t) >= 2:
        return t[1:-1]
    if re.fullmatch(r'[-+]?[0-9]+', t):
        return int(t)
    if re.fullmatch(r'[-+]?([0-9]*\.[0-9]+|[0-9]+\.[0-9]*)([eE][-+]?[0-9]+)?', t) or re.fullmatch(r'[-+]?[0-9]+[eE][-+]?[0-9]+', t):
        return float(t)
    if t[0] in '{&*!|>%@`':
        raise UnsupportedYaml(f'unsupported scalar {t!r}')
    return t


def _flow(s, i=0):
    """parse a flow sequence starting at s[i] == '['; returns (value, next index)"""
    assert s[i] == '['
    i += 1
    out = []
    tok = ''
    had_value = False
    while i < len(s):
        c = s[i]
        if c == '[':
            v, i = _flow(s, i)
            out.append(v)
            had_value = True
            tok = ''
            continue
        if c in ',]':
            if tok.strip() != '':
                out.append(_scalar(tok))
            elif not had_value and c == ',':
                raise UnsupportedYaml('empty flow entry')
            tok = ''
            had_value = False
            i += 1
            if c == ']':
                return out, i
            continue
        if c == '{':
            raise UnsupportedYaml('flow mappings unsupported')
        tok += c
        i += 1
    raise UnsupportedYaml('unterminated flow sequence')


def _value(text):
    t = text.strip()
    if t.startswith('['):
        v, i = _flow(t, 0)
        if t[i:].strip():
            raise UnsupportedYaml(f'trailing text after flow sequence: {t!r}')
        return v
    return _scalar(t)


def _strip_comment(line):
    out = ''
    q = None
    for i, c in enumerate(line):
        if q:
            if c == q:
                q = None
        elif c in '"\'':
            q = c
        elif c == '#' and (i == 0 or line[i - 1] in ' \t'):
            break
        out += c
    return out.rstrip()


def loads(text):
    lines = []
    for raw in text.splitlines():
        if '\t' in raw[:len(raw) - len(raw.lstrip())]:
            raise UnsupportedYaml('tab indentation')
        ln = _strip_comment(raw)
        if ln.strip() == '' or ln.strip() == '---':
            continue
        lines.append((len(ln) - len(ln.lstrip(' ')), ln.strip()))
    pos = [0]

    def block(indent):
        if pos[0] >= len(lines):
            return None
        ind, txt = lines[pos[0]]
        if ind < indent:
            return None
        if txt.startswith('- ') or txt == '-':
            return seq(ind)
        return mapping(ind)

    def mapping(indent):
        out = {}
        while pos[0] < len(lines):
            ind, txt = lines[pos[0]]
            if ind < indent:
                break
            if ind > indent:
                raise UnsupportedYaml(f'bad indentation: {txt!r}')
            m = re.match(r'^([^:\[\]{}#]+?):(\s+(.*))?$', txt)
            if not m:
                raise UnsupportedYaml(f'expected `key: value`: {txt!r}')
            key = _scalar(m.group(1))
            rest = (m.group(3) or '').strip()
            pos[0] += 1
            if key in out:
                raise UnsupportedYaml(f'duplicate key {key!r}')
            if rest:
                out[key] = _value(rest)
            else:
                if pos[0] < len(lines) and (lines[pos[0]][0] > indent or (lines[pos[0]][0] == indent and lines[pos[0]][1].startswith('-'))):
                    out[key] = block(lines[pos[0]][0])
                else:
                    out[key] = None
        return out

    def seq(indent):
        out = []
        while pos[0] < len(lines):
            ind, txt = lines[pos[0]]
            if ind < indent or not (txt.startswith('- ') or txt == '-'):
                break
            if ind > indent:
                raise UnsupportedYaml(f'bad indentation: {txt!r}')
            rest = txt[1:].strip()
            if rest == '':
                pos[0] += 1
                out.append(block(indent + 1))
            elif re.match(r'^[^:\[\]{}#"\']+:(\s|$)', rest):
                # mapping entry starting on the dash line: re-read it as a mapping indented after the dash
                inner = ind + (len(txt) - len(txt[1:].lstrip()))
                lines[pos[0]] = (inner, rest)
                out.append(mapping(inner))
            else:
                pos[0] += 1
                out.append(_value(rest))
        return out

    v = block(0)
    if pos[0] != len(lines):
        raise UnsupportedYaml(f'could not parse line: {lines[pos[0]][1]!r}')
    return v


def load_file(path):
    with open(path) as f:
        return loads(f.read())
