"""Runs the obligations of one property, replays counterexamples, writes evidence."""
from __future__ import annotations

import hashlib
import importlib
import inspect
import json
import multiprocessing as mp
import os
import sys
import time
import traceback

from . import REPO, symx
from . import stubs as _stubs  # noqa: F401  (registers the per-path hooks: memo caches of the library are emptied before every path)

HERE = os.path.dirname(os.path.dirname(os.path.abspath(__file__)))
EVIDENCE_DIR = os.environ.get('VERIF_EVIDENCE_DIR') or os.path.join(HERE, 'evidence')
REPLAY_DIR = os.path.join(HERE, 'replays')
KNOWN = os.path.join(HERE, 'known_findings.json')

EXPLANATION = (
    'bounded symbolic execution of the real gym_gridverse functions (imported from the '
    "repository's working tree on this run): inputs are z3-backed proxies, every branch is decided "
    'by z3, an obligation is discharged only if its path tree was exhausted with no `unknown` and '
    'every assertion was valid under its path condition; counterexample models are replayed on '
    'the real code with the engine off before being reported'
)


class Obligation:
    def __init__(self, name, fn, params=None, time_limit=None, kind='forall', max_paths=None, finalize=None, max_violations=3, cross_check=0):
        self.name = name
        self.fn = fn
        self.params = params or {}
        self.time_limit = time_limit
        self.kind = kind  # 'forall' (symbolic exploration) | 'concrete' (plain finite check, reported apart)
        self.max_paths = max_paths
        self.max_violations = max_violations
        self.cross_check = cross_check  # number of verification conditions to re-decide with the cvc5 binary (0 = none)
        self.finalize = finalize  # finalize(bag) -> list of confirmed violation dicts (existential claims over all paths)


_OBLS = []
_DEFAULT_LIMIT = 600.0


class _Tracer:
    """collects the repository functions entered (one path per obligation)"""

    def __init__(self):
        self.codes = set()

    def __call__(self, frame, event, arg):
        if event == 'call':
            co = frame.f_code
            if co.co_filename.startswith(REPO):
                self.codes.add((co.co_filename[len(REPO) + 1:], co.co_qualname if hasattr(co, 'co_qualname') else co.co_name))


def _run_one(i):
    ob = _OBLS[i]
    t0 = time.perf_counter()
    out = dict(index=i, name=ob.name, params=ob.params, kind=ob.kind)
    try:
        if ob.kind == 'concrete':
            res = ob.fn()
            out.update(status='ok' if not res.get('violations') else 'violated', concrete=res,
                       stats=dict(paths=res.get('cases', 0)), violations=res.get('violations', []),
                       functions=[], samples=res.get('samples', [])[:2])
            out['wall_s'] = round(time.perf_counter() - t0, 3)
            return out
        ex = symx.Explorer(time_limit=ob.time_limit or _DEFAULT_LIMIT,
                           max_paths=ob.max_paths or 10_000_000, max_violations=ob.max_violations)
        tracer = _Tracer()
        first = [True]

        def fn(sx):
            if first[0]:
                first[0] = False
                sys.setprofile(tracer)
                try:
                    return ob.fn(sx)
                finally:
                    sys.setprofile(None)
            return ob.fn(sx)

        if ob.cross_check:
            ex.export_vcs, ex.export_cap = [], ob.cross_check
        ex.explore(fn)
        st = ex.stats()
        if ob.cross_check:
            st['second_solver'] = _second_solver(ex.export_vcs)
            if st['second_solver']['disagree'] or st['second_solver']['error']:
                ex.inconclusive_reasons.append('second solver disagrees or failed on a verification condition')
                ex.exhausted = False
                st = dict(ex.stats(), second_solver=st['second_solver'])
        final_viol = []
        if ob.finalize is not None and ex.exhausted and not ex.violations:
            final_viol = list(ob.finalize(ex.bag))
            st['finalize_checked'] = True
        status = 'discharged'
        if ex.violations or final_viol:
            status = 'violated'
        elif not ex.exhausted:
            status = 'inconclusive'
        elif ex.checks_reached == 0:
            status = 'vacuous'
        out.update(status=status, stats=st, violations=[v.as_dict() for v in ex.violations] + final_viol,
                   functions=sorted(tracer.codes), samples=ex.samples[:2])
    except BaseException as e:  # engine / harness error
        out.update(status='error', error=''.join(traceback.format_exception(type(e), e, e.__traceback__))[-3000:],
                   stats={}, violations=[], functions=[], samples=[])
    out['wall_s'] = round(time.perf_counter() - t0, 3)
    return out


def _second_solver(vcs):
    """re-decide exported verification conditions with the cvc5 binary; every one must be unsat"""
    import subprocess
    import tempfile
    out = dict(solver='cvc5 binary', checked=0, unsat=0, disagree=0, error=0, unknown=0, seconds=0.0)
    t0 = time.perf_counter()
    for label, smt in vcs:
        with tempfile.NamedTemporaryFile('w', suffix='.smt2', delete=False, dir=os.environ.get('TMPDIR', '/tmp')) as f:
            f.write('(set-logic ALL)\n' + smt)
            path = f.name
        try:
            p = subprocess.run(['cvc5', '--tlimit=20000', path], capture_output=True, text=True, timeout=40)
            ans = p.stdout.strip().splitlines()[0] if p.stdout.strip() else ''
            out['checked'] += 1
            if '(error' in p.stdout or '(error' in p.stderr:
                out['error'] += 1
            elif ans == 'unsat':
                out['unsat'] += 1
            elif ans == 'sat':
                out['disagree'] += 1
            else:
                out['unknown'] += 1
        except Exception:
            out['error'] += 1
        finally:
            os.unlink(path)
    out['seconds'] = round(time.perf_counter() - t0, 2)
    return out


def _load_known(prop):
    try:
        data = json.load(open(KNOWN))
    except FileNotFoundError:
        return []
    return [k for k in data.get('findings', []) if k.get('property') == prop and k.get('status') == 'open']


def _matches(known, ob_name, params, v):
    m = known.get('match', {})
    if 'obligation_prefix' in m and not ob_name.startswith(m['obligation_prefix']):
        return False
    if 'label' in m and v['label'] != m['label']:
        return False
    if 'expr' in m:
        env = dict(v['inputs'].get('inputs', {}))
        env.update(params=params, notes=v['inputs'].get('notes', {}), label=v['label'], message=v.get('message', ''))
        try:
            return bool(eval(m['expr'], {'__builtins__': {}}, env))
        except Exception:
            return False
    return True


def source_hashes(functions):
    """sha1 of the source file of every repo function entered"""
    out = {}
    for fname in sorted({f for f, _ in functions}):
        try:
            out[fname] = hashlib.sha1(open(os.path.join(REPO, fname), 'rb').read()).hexdigest()[:12]
        except OSError:
            pass
    return out


def run_property(modname, tier, seed=0, only=None, jobs=None):
    global _OBLS, _DEFAULT_LIMIT
    t0 = time.time()
    mod = importlib.import_module(f'vf.props.{modname.lower()}')
    prop = mod.PROPERTY
    obls = list(mod.obligations(tier))
    if only:
        obls = [o for o in obls if any(s in o.name for s in only)]
    _OBLS = obls
    _DEFAULT_LIMIT = getattr(mod, 'TIME_LIMIT', {}).get(tier, 600.0)
    jobs = jobs or int(os.environ.get('VERIF_JOBS', '0')) or min(16, os.cpu_count() or 4)
    results = []
    if obls:
        ctx = mp.get_context('fork')
        with ctx.Pool(min(jobs, len(obls))) as pool:
            for r in pool.imap_unordered(_run_one, range(len(obls)), chunksize=1):
                results.append(r)
                if os.environ.get('VERIF_VERBOSE'):
                    print(f"  [{r['status']:>12}] {r['name']} paths={r['stats'].get('paths')} "
                          f"q={r['stats'].get('queries')} wall={r['wall_s']}s", flush=True)
    results.sort(key=lambda r: r['index'])

    known = _load_known(prop)
    os.makedirs(REPLAY_DIR, exist_ok=True)
    exit_code = 0
    n_viol = 0
    known_hits = []
    lines = []
    for r in results:
        ob = obls[r['index']]
        if r['status'] == 'error':
            lines.append(f"ENGINE-ERROR property={prop} obligation={r['name']}\n{r['error']}")
            exit_code = max(exit_code, 3)
            continue
        if r['status'] == 'vacuous':
            lines.append(f"ENGINE-ERROR property={prop} obligation={r['name']} vacuous: no path reached an assertion")
            exit_code = max(exit_code, 3)
            continue
        for v in r['violations']:
            if ob.kind == 'concrete' or v.get('confirmed'):
                reproduced = dict(label=v['label'], message=v.get('message', ''), confirmed=True)  # already confirmed on the real code
            else:
                reproduced, cx = symx.replay(ob.fn, v['inputs']['inputs'])
            if not reproduced:
                lines.append(f"ENGINE-ERROR property={prop} obligation={r['name']} counterexample did not "
                             f"reproduce on the real code: label={v['label']} inputs={json.dumps(v['inputs'], default=str)[:600]}")
                exit_code = max(exit_code, 3)
                continue
            v['replayed'] = reproduced
            hit = next((k for k in known if _matches(k, r['name'], r['params'], v)), None)
            if hit is not None:
                known_hits.append((hit, r['name'], v))
                continue
            n_viol += 1
            digest = hashlib.sha1(json.dumps([r['name'], v['label'], v.get('message', ''), v['inputs']], sort_keys=True, default=str).encode()).hexdigest()[:10]
            path = os.path.join(REPLAY_DIR, f'{prop}-{digest}.json')
            json.dump(dict(property=prop, tier=tier, obligation=r['name'], params=r['params'], label=v['label'],
                           message=v.get('message', ''), replayed=reproduced, inputs=v['inputs']),
                      open(path, 'w'), indent=1, default=str)
            if n_viol <= 8:
                lines.append(f"  counterexample obligation={r['name']} label={v['label']} message={v.get('message','')[:300]} "
                             f"inputs={json.dumps(v['inputs'], default=str)[:500]}")
                lines.append(f'VIOLATION property={prop} replay={path}')
            elif n_viol == 9:
                lines.append(f'  ... further violations are only written to {REPLAY_DIR}')
            exit_code = max(exit_code, 1)
    if n_viol:
        exit_code = 1  # a violation replayed on the real code is a verdict whatever else went wrong (engine errors are still printed)
    seen = set()
    for hit, name, v in known_hits:
        if hit['id'] in seen:
            continue
        seen.add(hit['id'])
        n_hit = sum(1 for h2, _, _ in known_hits if h2['id'] == hit['id'])
        lines.append(f"KNOWN-FINDING: property={prop} {hit['id']}: {hit['description'][:400]} ({n_hit} counterexamples matched, e.g. obligation={name} label={v['label']})")

    sym = [r for r in results if r['kind'] != 'concrete']
    conc = [r for r in results if r['kind'] == 'concrete']
    discharged = sum(1 for r in sym if r['status'] == 'discharged')
    inconcl = [r for r in sym if r['status'] == 'inconclusive']
    for r in inconcl:
        lines.append(f"INCONCLUSIVE property={prop} obligation={r['name']} reasons={r['stats'].get('inconclusive')}")
    functions = sorted({tuple(f) for r in results for f in r['functions']})
    agg = lambda k: sum(r['stats'].get(k, 0) or 0 for r in sym)
    samples = []
    for r in sym:
        for s in r['samples'][:1]:
            samples.append(dict(obligation=r['name'], params=r['params'], path_model=s))
        if len(samples) >= 6:
            break
    if not samples:
        samples = [dict(obligation=r['name'], params=r['params']) for r in results[:3]]
    level = getattr(mod, 'LEVEL', 'other')
    coverage = dict(
        explanation=EXPLANATION + ' -- ' + getattr(mod, 'SCOPE', ''),
        obligations=len(sym),
        discharged=discharged,
        inconclusive=[dict(obligation=r['name'], reasons=r['stats'].get('inconclusive')) for r in inconcl],
        evaluations=agg('paths'),
        distinct_nontrivial=agg('nontrivial_paths'),
        rule=('one evaluation = one explored path (= one class of inputs with a distinct, solver-satisfiable path '
              'condition); non-trivial = the path reached a property assertion under the harness-defined interesting '
              'precondition (sx.cover labels, see cover_labels)'),
        cover_labels=_merge_cover(sym),
        paths_dropped_by_assumption=agg('paths_assume'),
        assertions_reached=agg('checks_reached'),
        assertions_decided_by_solver=agg('checks_symbolic'),
        forks=agg('forks'), concretizations=agg('concretizations'),
        queries=agg('queries'), solver_s=round(sum(r['stats'].get('solver_s', 0) or 0 for r in sym), 2),
        exhaustive=bool(sym) and discharged == len(sym),
        bounds=getattr(mod, 'BOUNDS', {}).get(tier, getattr(mod, 'BOUNDS', {})),
        outside=getattr(mod, 'OUTSIDE', ''),
        stubs=getattr(mod, 'STUBS', []),
        functions_encoded=[f'{f}:{q}' for f, q in functions],
        source_sha1=source_hashes(functions),
        samples=samples,
        checker_cmd=f'./run {prop} --tier {tier}',
        trusted_base=['z3 ' + _z3_version(), 'vf/symx.py proxies and driver', 'CPython', 'harness oracles in vf/props/' + modname.lower() + '.py'],
        per_obligation=[dict(name=r['name'], status=r['status'], wall_s=r['wall_s'],
                             **{k: r['stats'].get(k) for k in ('paths', 'queries', 'solver_s', 'nontrivial_paths', 'checks_reached')})
                        for r in sym],
        concrete_side_checks=[dict(name=r['name'], status=r['status'], cases=r['stats'].get('paths'), detail=r.get('concrete', {}).get('detail'))
                              for r in conc],
        known_findings_hit=[h['id'] for h, _, _ in known_hits],
        second_solver=_merge_second(sym),
    )
    ev = dict(property_id=prop, tier=tier, seed=seed, level=level, coverage=coverage,
              assumptions=getattr(mod, 'ASSUMPTIONS', []), wall_s=round(time.time() - t0, 2), violations=n_viol)
    os.makedirs(EVIDENCE_DIR, exist_ok=True)
    json.dump(ev, open(os.path.join(EVIDENCE_DIR, f'{prop}.json'), 'w'), indent=1, default=str)
    for ln in lines:
        print(ln)
    print(f"{prop} tier={tier}: obligations={len(sym)} discharged={discharged} inconclusive={len(inconcl)} "
          f"paths={coverage['evaluations']} nontrivial={coverage['distinct_nontrivial']} queries={coverage['queries']} "
          f"solver_s={coverage['solver_s']} concrete_side_checks={len(conc)} violations={n_viol} wall={ev['wall_s']}s")
    return exit_code


def _merge_second(results):
    tot = None
    for r in results:
        ss = r['stats'].get('second_solver')
        if ss:
            if tot is None:
                tot = dict(solver=ss['solver'], checked=0, unsat=0, disagree=0, error=0, unknown=0, seconds=0.0)
            for k in ('checked', 'unsat', 'disagree', 'error', 'unknown', 'seconds'):
                tot[k] = round(tot[k] + ss[k], 2)
    return tot or 'not run in this tier'


def _merge_cover(results):
    out = {}
    for r in results:
        for k, n in (r['stats'].get('cover') or {}).items():
            out[k] = out.get(k, 0) + n
    return out


def _z3_version():
    import z3
    return z3.get_version_string()


def replay_file(path):
    rec = json.load(open(path))
    mod = importlib.import_module(f"vf.props.{rec['property'].lower()}")
    for tier in (rec.get('tier', 'quick'), 'thorough', 'quick'):
        ob = next((o for o in mod.obligations(tier) if o.name == rec['obligation']), None)
        if ob is not None:
            break
    if ob is None:
        print(f"obligation {rec['obligation']} not found")
        return 3
    if rec.get('replayed', {}).get('confirmed'):
        global _OBLS
        _OBLS = [ob]
        r = _run_one(0)
        bad = [v for v in r['violations'] if v.get('confirmed')]
        print('reproduced' if bad else 'not reproduced', bad[:1])
        if bad:
            print(f"VIOLATION property={rec['property']} replay={path}")
        return 1 if bad else 0
    if ob.kind == 'concrete':
        res = ob.fn()
        bad = res.get('violations', [])
        print('reproduced' if bad else 'not reproduced', bad[:1])
        return 1 if bad else 0
    v, cx = symx.replay(ob.fn, rec['inputs']['inputs'])
    if v:
        print(f"reproduced: label={v['label']} message={v.get('message','')}")
        print(f"VIOLATION property={rec['property']} replay={path}")
        return 1
    print('not reproduced on the current tree')
    return 0
