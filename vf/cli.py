import argparse
import os
import sys

from . import runner


def main():
    ap = argparse.ArgumentParser()
    ap.add_argument('prop')
    ap.add_argument('--tier', default=os.environ.get('VERIF_TIER', 'quick'), choices=['quick', 'thorough'])
    ap.add_argument('--replay')
    ap.add_argument('--only', action='append', help='substring filter on obligation names (debugging)')
    ap.add_argument('--jobs', type=int)
    a = ap.parse_args()
    if a.prop == 'selftest':
        from . import selftest
        sys.exit(selftest.main())
    if a.replay:
        sys.exit(runner.replay_file(a.replay))
    from . import selftest
    if selftest.main(quiet=True) != 0:
        print('ENGINE-ERROR self-test failed')
        sys.exit(3)
    if a.only and not os.environ.get('VERIF_EVIDENCE_DIR'):
        os.environ['VERIF_EVIDENCE_DIR'] = '/tmp/verif-partial-evidence'  # a filtered run must not replace the evidence of the full check
        runner.EVIDENCE_DIR = os.environ['VERIF_EVIDENCE_DIR']
    seed = int(os.environ.get('VERIF_SEED', '0') or 0)
    sys.exit(runner.run_property(a.prop, a.tier, seed=seed, only=a.only, jobs=a.jobs))


if __name__ == '__main__':
    main()
