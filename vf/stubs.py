"""Harness-side environment: lazily symbolic grids, object alphabets, symbolic RNG.

Every stub here is part of the claim (see DESIGN.md §2.4).
"""
from __future__ import annotations

import numpy as np

from gym_gridverse.agent import Agent
from gym_gridverse.geometry import Orientation, Position
from gym_gridverse.grid import Grid
from gym_gridverse.grid_object import (Beacon, Box, Color, Door, Exit, Floor,
                                       GridObject, Hidden, Key, MovingObstacle,
                                       NoneGridObject, Telepod, Wall)
from gym_gridverse.state import State

from .symx import SymBool, SymInt, SymReal

COLORS = list(Color)
ORS = [Orientation.F, Orientation.R, Orientation.B, Orientation.L]


# --------------------------------------------------------------------------
# alphabets: (label, factory) -- the factory builds a FRESH real object


def _mk(label, f):
    return (label, f)


def alphabet(colors=COLORS, statuses=tuple(Door.Status), *, floor=True, wall=True, exit=True, door=True, key=True,
             obstacle=True, box=True, telepod=True, beacon=True, exit_colors=None):
    a = []
    if floor:
        a.append(_mk('Floor', Floor))
    if wall:
        a.append(_mk('Wall', Wall))
    if exit:
        for c in (exit_colors if exit_colors is not None else colors):
            a.append(_mk(f'Exit({c.name})', lambda c=c: Exit(c)))
    if door:
        for s in statuses:
            for c in colors:
                a.append(_mk(f'Door({s.name},{c.name})', lambda s=s, c=c: Door(s, c)))
    if key:
        for c in colors:
            a.append(_mk(f'Key({c.name})', lambda c=c: Key(c)))
    if obstacle:
        a.append(_mk('MovingObstacle', MovingObstacle))
    if box:
        a.append(_mk('Box(Floor)', lambda: Box(Floor())))
        a.append(_mk(f'Box(Key({colors[-1].name}))', lambda: Box(Key(colors[-1]))))
        a.append(_mk('Box(Box(Floor))', lambda: Box(Box(Floor()))))
    if telepod:
        for c in colors:
            a.append(_mk(f'Telepod({c.name})', lambda c=c: Telepod(c)))
    if beacon:
        for c in colors:
            a.append(_mk(f'Beacon({c.name})', lambda c=c: Beacon(c)))
    return a


SIGMA_FULL = alphabet()
TWO = [Color.NONE, Color.YELLOW]
SIGMA_2C = alphabet(TWO)  # same kinds, two colours
THREE = [Color.NONE, Color.RED, Color.YELLOW]
SIGMA_3C = alphabet(THREE)


def same_object(a, b):
    """deep structural equality (type, status, colour, nested content) -- independent of GridObject.__eq__"""
    if type(a) is not type(b):
        return False
    if isinstance(a, Door) and a.state is not b.state:
        return False
    if getattr(a, 'color', None) is not getattr(b, 'color', None):
        return False
    if isinstance(a, Box):
        return same_object(a.content, b.content)
    return True


def describe(o):
    return repr(o)


# --------------------------------------------------------------------------
# lazily symbolic grid


class World:
    """The symbolic description of one grid: a code per cell, created on first use."""

    def __init__(self, sx, name, H, W, sigma):
        self.sx, self.name, self.H, self.W, self.sigma = sx, name, H, W, sigma
        self._codes = {}
        self.fixed = {}  # (y, x) -> factory: concretely fixed cells (structured backgrounds)

    def code(self, y, x):
        k = (y, x)
        if k not in self._codes:
            self._codes[k] = self.sx.int(f'{self.name}_{y}_{x}', 0, len(self.sigma) - 1)
        return self._codes[k]

    def index(self, y, x):
        """concrete alphabet index of the cell (forks over the feasible ones)"""
        return int(self.code(y, x))

    def make(self, y, x):
        k = (y, x)
        if k in self.fixed:
            return self.fixed[k]()
        return self.sigma[self.index(y, x)][1]()

    def label(self, y, x):
        return self.sigma[self.index(y, x)][0]

    def indices_of(self, pred):
        return [i for i, (lab, f) in enumerate(self.sigma) if pred(f())]


_WORLDS = []


def _rebuild_rows(wkey, cells):
    rows = LazyRows(_WORLDS[wkey])
    rows.cells = cells
    return rows


class LazyRow:
    __slots__ = ('rows', 'y')

    def __init__(self, rows, y):
        self.rows, self.y = rows, y

    def _x(self, x):
        W = self.rows.world.W
        if isinstance(x, SymInt):
            if x >= W or x < -W:
                raise IndexError('list index out of range')
        x = int(x)
        if x < -W or x >= W:
            raise IndexError('list index out of range')
        return x + W if x < 0 else x

    def __len__(self):
        return self.rows.world.W

    def __getitem__(self, x):
        if isinstance(x, slice):
            return [self.rows.get(self.y, i) for i in range(*x.indices(self.rows.world.W))]
        return self.rows.get(self.y, self._x(x))

    def __setitem__(self, x, obj):
        self.rows.set(self.y, self._x(x), obj)

    def __iter__(self):
        return (self.rows.get(self.y, x) for x in range(self.rows.world.W))


class LazyRows:
    """Stands for Grid.objects (a list of lists).  The real Grid class is used around it."""

    def __init__(self, world):
        self.world = world
        self.cells = {}  # materialised cells of THIS grid instance
        self.reads = []  # order of first reads
        self.writes = []  # (y, x) of every __setitem__ on this instance

    def get(self, y, x):
        k = (y, x)
        if k not in self.cells:
            self.cells[k] = self.world.make(y, x)
            self.reads.append(k)
        return self.cells[k]

    def set(self, y, x, obj):
        self.cells[(y, x)] = obj
        self.writes.append((y, x))

    def _y(self, y):
        H = self.world.H
        if isinstance(y, SymInt):
            if y >= H or y < -H:
                raise IndexError('list index out of range')
        y = int(y)
        if y < -H or y >= H:
            raise IndexError('list index out of range')
        return y + H if y < 0 else y

    def __len__(self):
        return self.world.H

    def __getitem__(self, y):
        if isinstance(y, slice):
            return [LazyRow(self, i) for i in range(*y.indices(self.world.H))]
        return LazyRow(self, self._y(y))

    def __iter__(self):
        return (LazyRow(self, y) for y in range(self.world.H))

    def __reduce__(self):
        if self.world not in _WORLDS:
            _WORLDS.append(self.world)
        return (_rebuild_rows, (_WORLDS.index(self.world), dict(self.cells)))

    def materialised(self):
        return dict(self.cells)


def reset_worlds():
    del _WORLDS[:]


def lazy_grid(sx, name, H, W, sigma):
    world = World(sx, name, H, W, sigma)
    rows = LazyRows(world)
    grid = Grid.__new__(Grid)
    Grid.__init__(grid, rows)  # the real constructor: shape/area from len(objects), len(objects[0])
    return grid, world


def held_item(sx, sigma, name='held'):
    """None or a fresh object of the alphabet, chosen symbolically"""
    i = int(sx.int(name, -1, len(sigma) - 1))
    return None if i < 0 else sigma[i][1]()


_LAZY = {}


class LazyAgent(Agent):
    """The real Agent whose held item is chosen (symbolically, from an alphabet) on first access."""

    def __init__(self, position, orientation, key):
        Agent.__init__(self, position, orientation, None)
        del self.__dict__['_go']
        self.__dict__['_lz'] = key

    @property
    def grid_object(self):
        d = self.__dict__
        if '_go' not in d:
            sx, sigma, name = _LAZY[d['_lz']]
            obj = held_item(sx, sigma, name)
            d['_go'] = NoneGridObject() if obj is None else obj
        return d['_go']

    @grid_object.setter
    def grid_object(self, v):
        self.__dict__['_go'] = v

    def held_touched(self):
        return '_go' in self.__dict__


def pre_held(key='held'):
    """fresh copy of the pre-state held item (None if empty-handed)"""
    sx, sigma, name = _LAZY[key]
    return held_item(sx, sigma, name)


def lazy_state(sx, H, W, sigma, *, held_sigma=None, name='g', orientations=ORS, agent='a', held='held'):
    """A lazily symbolic State on a concrete shape: agent anywhere in the grid, any heading, any held item."""
    grid, world = lazy_grid(sx, name, H, W, sigma)
    y = sx.int(agent + 'y', 0, H - 1)
    x = sx.int(agent + 'x', 0, W - 1)
    o = sx.choice(agent + 'o', orientations)
    _LAZY[held] = (sx, held_sigma if held_sigma is not None else sigma, held)
    return State(grid, LazyAgent(Position(y, x), o, held)), world


def concrete_grid(rows):
    """real Grid from nested lists of factories/objects"""
    return Grid([[c() if callable(c) else c for c in r] for r in rows])


# --------------------------------------------------------------------------
# symbolic random generator (numpy.random.Generator contract)


class GlobalRngTouched(AssertionError):
    pass


class SymRng:
    """Every draw is a fresh symbolic variable constrained only by the Generator contract."""

    def __init__(self, sx, name='rng', preset=None, extremes=False):
        self.sx, self.name, self.n = sx, name, 0
        self.log = []
        self.preset = preset or {}  # draw index -> value: a concrete split of the first draws (partitioning of one obligation)
        self.extremes = extremes    # restrict every integer draw to the smallest or the largest value of its interval (a stated bound)

    def _fresh(self, lo, hi):
        v = self.sx.int(f'{self.name}{self.n}', lo, hi)
        if self.n in self.preset:
            self.sx.assume(v == self.preset[self.n])
        elif self.extremes:
            from .symx import sym_or
            self.sx.assume(sym_or(v == lo, v == hi))
        self.n += 1
        self.log.append(v)
        return v

    def integers(self, low, high=None, size=None, dtype=np.int64, endpoint=False):
        if high is None:
            low, high = 0, low
        hi = high if endpoint else high - 1
        if low > hi:
            raise ValueError('low >= high')
        if size is None:
            return self._fresh(low, hi)
        return [self._fresh(low, hi) for _ in range(int(size))]

    def choice(self, a, size=None, replace=True, p=None, axis=0, shuffle=True):
        if p is not None:
            raise NotImplementedError('SymRng.choice with p')
        seq = None
        if isinstance(a, (int, np.integer, SymInt)):
            n = a
            if n <= 0 and (size is None or size != 0):
                raise ValueError('a must be a positive integer unless no samples are taken')
        else:
            seq = list(a)
            n = len(seq)
            if n == 0 and (size is None or size != 0):
                raise ValueError('a cannot be empty unless no samples are taken')
        if size is None:
            i = self._fresh(0, n - 1)
            return i if seq is None else seq[i]
        k = int(size)
        if k < 0:
            raise ValueError('negative dimensions are not allowed')
        if not replace and k > n:
            raise ValueError('Cannot take a larger sample than population when replace is False')
        idx = []
        for _ in range(k):
            if self.extremes and not replace and k > 1:
                # a sample of k distinct indices cannot sit on two extreme values: the k smallest and k largest indices are allowed
                from .symx import sym_or
                ext, self.extremes = self.extremes, False
                i = self._fresh(0, n - 1)
                self.extremes = ext
                self.sx.assume(sym_or(i < k, i >= n - k))
            else:
                i = self._fresh(0, n - 1)
            if not replace:
                for j in idx:
                    self.sx.assume(i != j)
            idx.append(i)
        return idx if seq is None else [seq[i] for i in idx]

    def permutation(self, x):
        seq = list(range(int(x))) if isinstance(x, (int, np.integer, SymInt)) else list(x)
        idx = self.choice(len(seq), size=len(seq), replace=False) if seq else []
        return [seq[i] for i in idx]

    def shuffle(self, x):
        x[:] = self.permutation(x)

    def random(self, size=None):
        def one():
            v = self.sx.real(f'{self.name}{self.n}', 0, 1, hi_strict=True)
            self.n += 1
            self.log.append(v)
            return v
        if size is None:
            return one()
        shape = (size,) if isinstance(size, int) else tuple(size)
        out = np.empty(shape, dtype=object)
        for i in np.ndindex(*shape):
            out[i] = one()
        return out


class ForbiddenRng:
    """stands for any global generator: every use is a violation of rng threading"""

    def __getattr__(self, name):
        raise GlobalRngTouched(f'global generator used: .{name}')


# --------------------------------------------------------------------------
# memo caches of the code under test must not carry proxies (or anything else) from one path to the next


_KEEP = ('cached_compute_rays', 'cached_compute_rays_fancy')
_CACHES = {}  # module name -> list of memo wrappers found in it (scanned once per module)


def _clear_repo_caches():
    """every functools memo wrapper found at module level of the loaded gym_gridverse modules is emptied before each path
    (whatever its name: a change of the library may add one).  The ray caches are kept: they are keyed by the concrete view
    area and anchor only -- harnesses never pass proxies there -- and recomputing ray fans on every path would dominate the run"""
    import sys
    for name, mod in list(sys.modules.items()):
        if not name.startswith('gym_gridverse') or mod is None:
            continue
        found = _CACHES.get(name)
        if found is None:
            found = _CACHES[name] = [v for k, v in list(vars(mod).items()) if k not in _KEEP and callable(getattr(v, 'cache_clear', None))
                                     and callable(getattr(v, 'cache_info', None))]
        for f in found:
            try:
                f.cache_clear()
            except Exception:
                pass
    _restore_module_state()


_MODULE_STATE = {}  # (module name, attribute) -> (container, snapshot of its content at first sight)


def _restore_module_state():
    """plain module-level dicts / lists / sets of the library (hand-made memo tables, lazily filled lookup tables) are put back to the content
    they had when first seen, so that no path sees what another path left there; registries and other objects are left alone"""
    import sys
    for name, mod in list(sys.modules.items()):
        if not name.startswith('gym_gridverse') or mod is None:
            continue
        for attr, v in list(vars(mod).items()):
            if type(v) not in (dict, list, set) or attr.startswith('__'):
                continue
            key = (name, attr)
            known = _MODULE_STATE.get(key)
            if known is None or known[0] is not v:
                _MODULE_STATE[key] = (v, v.copy())
                continue
            snap = known[1]
            # (identity comparisons only: the containers may hold proxies left by a path, which must not be asked anything here)
            if type(v) is dict:
                same = len(v) == len(snap) and all(k1 is k2 and a is b for (k1, a), (k2, b) in zip(v.items(), snap.items()))
            elif type(v) is list:
                same = len(v) == len(snap) and all(a is b for a, b in zip(v, snap))
            else:
                ids = {id(e) for e in snap}
                same = len(v) == len(snap) and all(id(e) in ids for e in v)
            if not same:
                v.clear()
                (v.extend if type(v) is list else v.update)(snap)


from . import symx as _symx  # noqa: E402

if _clear_repo_caches not in _symx.PATH_HOOKS:
    _symx.PATH_HOOKS.append(_clear_repo_caches)
    _symx.PATH_HOOKS.append(reset_worlds)
