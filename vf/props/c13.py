"""C13 Reset functions always produce well-formed initial states."""
from collections import Counter

from gym_gridverse.envs import reset_functions as R
from gym_gridverse.geometry import Orientation, Shape
from gym_gridverse.grid_object import (Beacon, Box, Color, Door, Exit, Floor, Key,
                                       MovingObstacle, NoneGridObject, Telepod,
                                       Wall)
from gym_gridverse.state import State

from ..runner import Obligation
from ..stubs import SymRng as _SymRng

_RNG_OPTS = {}


def SymRng(sx):
    """the generator handed to the reset functions (all draws symbolic; optionally restricted to extreme values, see obligations)"""
    return _SymRng(sx, **_RNG_OPTS.get('opts', {}))


def with_extremes(h):
    def g(sx):
        _RNG_OPTS['opts'] = dict(extremes=True)
        try:
            return h(sx)
        finally:
            _RNG_OPTS.pop('opts', None)
    return g
from ..symx import sym_or
from .common import blocks_movement

PROPERTY = 'C13'
LEVEL = 'other'
SCOPE = ('each of the 8 built-in reset functions with symbolic parameters (counts, flags, layouts, colour subsets) and every rng draw a '
         'symbolic variable: on every path the call raises ValueError or returns a state satisfying the oracle of the property statement; '
         'any other exception or a malformed state is a violation')
BOUNDS = {
    'quick': dict(long_grids='CONCRETE sweep (not a solver verdict): rooms / memory_rooms on 7 x n and n x 7, n <= 40 (thorough 72), 1..n/2 rooms along the long axis', shapes='every HxW in 1..6 x 1..6 for empty/keydoor/crossing/teleport/memory (crossing and memory also 7x7 / 5x7, 7x5); '
                         'dynamic_obstacles 1..5 x 1..5; rooms 1..7 (layouts 1..2 x 1..2, also 0 and 3 on small shapes); memory_rooms 3x3..4x4 layout 1x1 with num_beacons 0..2 x num_exits 1..3; 4x5/5x4 layouts 1x1,1x2,2x1 (and invalid 0x1, 1x3 on 4x4) with 1 beacon, 2 exits',
                  parameters='random_agent/random_exit both values; num_obstacles in [-1, vacant+1] (<=4 vacant cells) resp. {-1..2, vacant+1}; num_rivers in [-1, 4]; river type Wall/MovingObstacle; '
                             'colour subsets: all 32 subsets for memory on one shape, {RED,BLUE},{RED,GREEN,BLUE} elsewhere; num_beacons 0..2, num_exits 1..3',
                  draws='every outcome of every draw (integers, choice with/without replacement, shuffle); additionally the shipped large shapes (7x7..13x13) with every draw at one of the two extreme values of its interval'),
    'thorough': dict(shapes='as quick plus 7x7/8x8 for the draw-poor functions, rooms 9x9 layout 2x2, memory_rooms 5x5 (1x1, 2x2) (1 beacon, 2 exits); rooms 9x9 layout 2x2 split into 81 obligations by its passage draws', parameters='as quick', draws='every outcome'),
}
OUTSIDE = ('the shipped 9x9..13x13 shapes of rooms / memory_rooms and large obstacle counts (10^6-10^8 draw outcomes each); only the two outcomes '
           '"ValueError" and "well-formed state" are distinguished: a ValueError for a combination that could have been honoured is not flagged')
ASSUMPTIONS = ['numpy Generator contract as stubbed by SymRng', 'PYTHONHASHSEED is fixed by ./run, so list(set_of_colours) is deterministic here (order independence is C02)']
STUBS = ['SymRng']
TIME_LIMIT = {'quick': 300, 'thorough': 1800}

ALLC = [Color.RED, Color.GREEN, Color.BLUE, Color.YELLOW]


def cells(st):
    H, W = st.grid.shape.height, st.grid.shape.width
    return [((y, x), st.grid.objects[y][x]) for y in range(H) for x in range(W)]


def common(sx, st, H, W, lab):
    sx.check(isinstance(st, State), lab + '-returns-state')
    sx.check(st.grid.shape.height == H and st.grid.shape.width == W and len(st.grid.objects) == H
             and all(len(r) == W for r in st.grid.objects), lab + '-shape')
    for (y, x), o in cells(st):
        if y in (0, H - 1) or x in (0, W - 1):
            sx.check(isinstance(o, Wall), lab + '-wall-boundary', f'({y},{x}) is {o!r}')
    p = st.agent.position
    py, px = int(p.y), int(p.x)
    sx.check(0 <= py < H and 0 <= px < W, lab + '-agent-in-grid', f'{(py, px)}')
    sx.check(isinstance(st.agent.orientation, Orientation), lab + '-orientation')
    sx.check(isinstance(st.agent.grid_object, NoneGridObject), lab + '-empty-handed')
    here = st.grid.objects[py][px]
    sx.check(not blocks_movement(here), lab + '-agent-on-nonblocking', repr(here))
    sx.check(not isinstance(here, (Exit, MovingObstacle, Telepod)), lab + '-agent-not-on-exit/obstacle/telepod', f'{(py, px)} {here!r}')
    # no object instance used twice
    objs = [o for _, o in cells(st) if isinstance(o, (Door, Box))]  # objects with mutable state must not be shared between cells
    sx.check(len({id(o) for o in objs}) == len(objs), lab + '-distinct-instances')
    return py, px


def inventory(st):
    return Counter(type(o).__name__ for _, o in cells(st))


def call(sx, f, lab):
    try:
        st = f()
    except ValueError:
        sx.cover(lab + ':ValueError', nontrivial=False)
        sx.check(True, lab + '-rejected-with-ValueError')
        return None
    sx.cover(lab + ':state')
    sx.bag[lab] = sx.bag.get(lab, 0) + 1
    return st


def mk_empty(H, W):
    def h(sx):
        ra = sx.choice('random_agent', [False, True])
        re = sx.choice('random_exit', [False, True])
        st = call(sx, lambda: R.empty(Shape(H, W), ra, re, rng=SymRng(sx)), 'empty')
        if st is None:
            return
        common(sx, st, H, W, 'empty')
        inv = inventory(st)
        sx.check(inv['Exit'] == 1 and inv['Wall'] == 2 * H + 2 * W - 4 and inv['Floor'] == H * W - inv['Wall'] - 1, 'empty-inventory', str(dict(inv)))
    return h


def mk_dynamic_obstacles(H, W, ks=None):
    vac = max(0, (H - 2) * (W - 2) - 2)

    def h(sx):
        ra = sx.choice('random_agent', [False, True])
        k = sx.int('num_obstacles', -1, vac + 1)
        if ks is not None:
            sx.assume(sym_or(*[k == v for v in ks]))
        elif vac > 4:
            sx.assume(sym_or(k <= 2, k > vac))
        st = call(sx, lambda: R.dynamic_obstacles(Shape(H, W), k, ra, rng=SymRng(sx)), 'dynamic_obstacles')
        if st is None:
            return
        common(sx, st, H, W, 'dynamic_obstacles')
        inv = inventory(st)
        k = int(k)
        sx.check(k >= 0, 'dynamic_obstacles-negative-count-accepted', f'num_obstacles={k}')
        sx.check(inv['Exit'] == 1 and inv['MovingObstacle'] == k and inv['Wall'] == 2 * H + 2 * W - 4
                 and inv['Floor'] == H * W - inv['Wall'] - 1 - k, 'dynamic_obstacles-inventory', f'k={k} {dict(inv)}')
    return h


def mk_keydoor(H, W):
    def h(sx):
        st = call(sx, lambda: R.keydoor(Shape(H, W), rng=SymRng(sx)), 'keydoor')
        if st is None:
            return
        py, px = common(sx, st, H, W, 'keydoor')
        inv = inventory(st)
        sx.check(inv['Exit'] == 1 and inv['Door'] == 1 and inv['Key'] == 1, 'keydoor-inventory', str(dict(inv)))
        (dy, dx), door = next((k, o) for k, o in cells(st) if isinstance(o, Door))
        (ky, kx), key = next((k, o) for k, o in cells(st) if isinstance(o, Key))
        (ey, ex), _ = next((k, o) for k, o in cells(st) if isinstance(o, Exit))
        sx.check(door.state is Door.Status.LOCKED, 'keydoor-door-locked')
        sx.check(key.color is door.color, 'keydoor-key-matches-door')
        sx.check(1 <= dx <= W - 2 and 1 <= dy <= H - 2, 'keydoor-door-inside')
        col = [st.grid.objects[y][dx] for y in range(1, H - 1)]
        row = [st.grid.objects[dy][x] for x in range(1, W - 1)]
        vertical = all(isinstance(o, Wall) or o is door for o in col)
        horizontal = all(isinstance(o, Wall) or o is door for o in row)
        sx.check(vertical or horizontal, 'keydoor-door-in-a-dividing-wall', repr(col))
        # the statement fixes no orientation or side: key and agent on one side of the dividing wall, the exit on the other
        side = (lambda y, x: x < dx) if vertical else (lambda y, x: y < dy)
        on_wall = (lambda y, x: x == dx) if vertical else (lambda y, x: y == dy)
        sx.check(not on_wall(ky, kx) and not on_wall(py, px) and side(ky, kx) == side(py, px), 'keydoor-key-and-agent-on-the-same-side',
                 f'door {(dy, dx)} key {(ky, kx)} agent {(py, px)}')
        sx.check(not on_wall(ey, ex) and side(ey, ex) != side(ky, kx), 'keydoor-exit-beyond-the-wall')
        # nothing else is in the way: all remaining interior cells are floor
        wall_len = (H - 2) if vertical else (W - 2)
        sx.check(inv['Wall'] == 2 * H + 2 * W - 4 + wall_len - 1 and inv['Floor'] == H * W - inv['Wall'] - 3, 'keydoor-rest-is-floor', str(dict(inv)))
    return h


def mk_crossing(H, W):
    def h(sx):
        n = sx.int('num_rivers', -1, 4)
        T = sx.choice('object_type', [Wall, MovingObstacle])
        st = call(sx, lambda: R.crossing(Shape(H, W), n, T, rng=SymRng(sx)), 'crossing')
        if st is None:
            return
        py, px = common(sx, st, H, W, 'crossing')
        inv = inventory(st)
        sx.check(inv['Exit'] == 1, 'crossing-one-exit', str(dict(inv)))
        sx.check(set(inv) <= {'Wall', 'Floor', 'Exit', 'MovingObstacle'}, 'crossing-object-types')
        sx.check(int(n) >= 1, 'crossing-nonpositive-rivers-accepted')
    return h


def mk_teleport(H, W):
    def h(sx):
        st = call(sx, lambda: R.teleport(Shape(H, W), rng=SymRng(sx)), 'teleport')
        if st is None:
            return
        common(sx, st, H, W, 'teleport')
        inv = inventory(st)
        tels = [o for _, o in cells(st) if isinstance(o, Telepod)]
        sx.check(inv['Exit'] == 1 and len(tels) == 2, 'teleport-inventory', str(dict(inv)))
        sx.check(len(tels) == 2 and tels[0].color is tels[1].color, 'teleport-same-colour')
        sx.check(inv['Wall'] == 2 * H + 2 * W - 4 and inv['Floor'] == H * W - inv['Wall'] - 3, 'teleport-rest-is-floor', str(dict(inv)))
    return h


def colour_sets(sx, which):
    if which == 'all':
        mask = int(sx.int('colors', 0, 31))
        return frozenset(c for i, c in enumerate(Color) if mask >> i & 1)
    return sx.choice('colors', [frozenset({Color.RED, Color.BLUE}), frozenset({Color.RED, Color.GREEN, Color.BLUE}),
                                frozenset({Color.RED}), frozenset({Color.NONE, Color.RED, Color.BLUE})])


def memory_inventory(sx, st, lab, num_exits, num_beacons):
    exits = [o for _, o in cells(st) if isinstance(o, Exit)]
    beacons = [o for _, o in cells(st) if isinstance(o, Beacon)]
    if num_exits is not None:
        sx.check(len(exits) == num_exits, lab + '-number-of-exits', f'{len(exits)} != {num_exits}')
    sx.check(len(exits) >= 2, lab + '-has-exits')
    if num_beacons is not None:
        sx.check(len(beacons) == num_beacons, lab + '-number-of-beacons', f'{len(beacons)} != {num_beacons}')
    sx.check(len(beacons) >= 1, lab + '-has-a-beacon')
    sx.check(len({e.color for e in exits}) == len(exits), lab + '-exit-colours-distinct', repr([e.color for e in exits]))
    bc = {b.color for b in beacons}
    sx.check(len(bc) == 1, lab + '-beacons-share-one-colour', repr(bc))
    sx.check(sum(1 for e in exits if e.color in bc) == 1, lab + '-beacons-match-exactly-one-exit')
    sx.check(all(e.color is not Color.NONE for e in exits), lab + '-exit-colour-not-NONE')


def mk_memory(H, W, which):
    def h(sx):
        cs = colour_sets(sx, which)
        st = call(sx, lambda: R.memory(Shape(H, W), cs, rng=SymRng(sx)), 'memory')
        if st is None:
            return
        common(sx, st, H, W, 'memory')
        memory_inventory(sx, st, 'memory', None, None)
        sx.check(all(e.color in cs for _, e in cells(st) if isinstance(e, (Exit, Beacon))), 'memory-colours-from-the-requested-set')
    return h


def rooms_common(sx, st, H, W, lab):
    py, px = common(sx, st, H, W, lab)
    sx.check(isinstance(st.grid.objects[py][px], Floor), lab + '-agent-on-floor')


def mk_rooms(H, W, lays, preset=None):
    def h(sx):
        lh = sx.choice('layout_h', lays)
        lw = sx.choice('layout_w', lays)
        st = call(sx, lambda: R.rooms(Shape(H, W), (lh, lw), rng=_SymRng(sx, preset=preset, **_RNG_OPTS.get('opts', {}))), 'rooms')
        if st is None:
            return
        rooms_common(sx, st, H, W, 'rooms')
        inv = inventory(st)
        sx.check(inv['Exit'] == 1 and set(inv) <= {'Wall', 'Floor', 'Exit'}, 'rooms-inventory', str(dict(inv)))
    return h


def mk_memory_rooms(H, W, lay, nb_range, ne_range):
    def h(sx):
        cs = colour_sets(sx, 'few')
        nb = sx.int('num_beacons', *nb_range)
        ne = sx.int('num_exits', *ne_range)
        st = call(sx, lambda: R.memory_rooms(Shape(H, W), lay, cs, nb, ne, rng=SymRng(sx)), 'memory_rooms')
        if st is None:
            return
        rooms_common(sx, st, H, W, 'memory_rooms')
        memory_inventory(sx, st, 'memory_rooms', int(ne), int(nb))
        inv = inventory(st)
        sx.check(set(inv) <= {'Wall', 'Floor', 'Exit', 'Beacon'}, 'memory_rooms-object-types', str(dict(inv)))
        sx.check(all(e.color in cs for _, e in cells(st) if isinstance(e, (Exit, Beacon))), 'memory_rooms-colours-from-the-requested-set')
    return h


def must_produce(lab):
    def fin(bag):
        if bag.get(lab, 0) == 0:
            return [dict(label=lab + '-valid-shape-never-produces-a-state', confirmed=True,
                         message='every path of a shipped (valid) parameter combination ended in ValueError', inputs=dict(inputs={}, notes={}))]
        return []
    return fin


def side_large_rooms(max_size, seeds):
    """CONCRETE side check (enumeration, not a solver verdict): the wall-split arithmetic of rooms / memory_rooms on long grids, which the
    symbolic shapes (<= 9x9) cannot reach: size x number of rooms along one axis, the other axis 7 cells with one room"""
    def f():
        import numpy as np
        bad, cases = [], 0
        for fname in ('rooms', 'memory_rooms'):
            fn = getattr(R, fname)
            for size in range(4, max_size + 1):
                for num in range(1, size // 2 + 1):
                    for vertical in (True, False):
                        shape = Shape(size, 7) if vertical else Shape(7, size)
                        layout = (num, 1) if vertical else (1, num)
                        for seed in seeds:
                            if len(bad) >= 5:
                                break
                            cases += 1
                            kw = dict(colors={Color.RED, Color.GREEN}, num_beacons=1, num_exits=2) if fname == 'memory_rooms' else {}
                            try:
                                st = fn(shape, layout, rng=np.random.default_rng(seed), **kw)
                            except ValueError:
                                continue
                            except Exception as e:
                                bad.append(dict(label='fails-other-than-ValueError', message=f'{fname}({shape}, {layout}) seed {seed}: {type(e).__name__}: {e}', inputs=dict(inputs={}, notes={})))
                                continue
                            H, W = shape.height, shape.width
                            why = None
                            if (st.grid.shape.height, st.grid.shape.width) != (H, W):
                                why = f'shape {st.grid.shape}'
                            else:
                                holes = [(y, x) for y in range(H) for x in range(W) if (y in (0, H - 1) or x in (0, W - 1)) and not isinstance(st.grid.objects[y][x], Wall)]
                                ay, ax = st.agent.position.y, st.agent.position.x
                                if holes:
                                    why = f'boundary cells {holes[:4]} are not walls'
                                elif not (0 < ay < H - 1 and 0 < ax < W - 1) or st.grid.objects[ay][ax].blocks_movement:
                                    why = f'agent at {(ay, ax)}'
                            if why:
                                bad.append(dict(label='malformed-initial-state-on-a-long-grid', message=f'{fname}({shape}, {layout}) seed {seed}: {why}', inputs=dict(inputs={}, notes={})))
        return dict(cases=cases, violations=bad[:5], detail=f'rooms / memory_rooms on 7 x n and n x 7 grids, n <= {max_size}, 1..n/2 rooms along the long axis, seeds {list(seeds)}: '
                                                            f'ValueError or a state of the requested shape with an unbroken wall boundary and the agent strictly inside on a free cell')
    return f


def obligations(tier):
    q = tier == 'quick'
    obs = [Obligation('side-long-grids-rooms', side_large_rooms(40 if q else 72, [0] if q else [0, 1]), kind='concrete')]

    def add(name, h, params, fin=None, tl=None):
        obs.append(Obligation(name, h, params, finalize=fin, time_limit=tl))

    rng6 = range(1, 7)
    for H in rng6:
        for W in rng6:
            valid = H >= 4 and W >= 4
            add(f'empty-{H}x{W}', mk_empty(H, W), dict(H=H, W=W), must_produce('empty') if valid else None)
            add(f'keydoor-{H}x{W}', mk_keydoor(H, W), dict(H=H, W=W), must_produce('keydoor') if (H >= 4 and W >= 5) else None)
            add(f'teleport-{H}x{W}', mk_teleport(H, W), dict(H=H, W=W), must_produce('teleport') if (H >= 4 and W >= 4 and H * W > 16) else None)
            if H <= 5 and W <= 5:
                add(f'dynamic_obstacles-{H}x{W}', mk_dynamic_obstacles(H, W), dict(H=H, W=W), must_produce('dynamic_obstacles') if valid else None)
    for (H, W) in [(h, w) for h in rng6 for w in rng6] + [(7, 7), (5, 7), (7, 5)] + ([] if q else [(9, 9), (7, 9)]):
        add(f'crossing-{H}x{W}', mk_crossing(H, W), dict(H=H, W=W), must_produce('crossing') if (H >= 5 and W >= 5 and H % 2 and W % 2) else None)
    for (H, W) in [(h, w) for h in range(3, 7) for w in range(3, 8)] + ([] if q else [(9, 9), (8, 7)]):
        which = 'all' if (H, W) == (5, 5) else 'few'
        add(f'memory-{H}x{W}', mk_memory(H, W, which), dict(H=H, W=W, colours=which), must_produce('memory') if (H >= 5 and W >= 5 and W % 2) else None)
    for H in range(1, 8):
        for W in range(1, 8):
            if H * W <= 16:
                add(f'rooms-{H}x{W}-layouts0..3', mk_rooms(H, W, [0, 1, 2, 3]), dict(H=H, W=W, layouts='0..3 x 0..3'))
            elif (H <= 5 and W <= 5) or (H, W) in [(7, 7), (5, 7), (7, 5), (6, 6)]:
                add(f'rooms-{H}x{W}-layouts1..2', mk_rooms(H, W, [1, 2]), dict(H=H, W=W, layouts='1..2 x 1..2'),
                    must_produce('rooms') if H >= 5 and W >= 5 else None)
    if not q:
        # the shipped four-rooms 9x9: one obligation per concrete value of the four passage draws (3 openings per wall segment), 81 in all
        import itertools
        for pv in itertools.product([1, 2, 3], [5, 6, 7], [1, 2, 3], [5, 6, 7]):
            add(f'rooms-9x9-layout2x2-passages{"".join(map(str, pv))}', mk_rooms(9, 9, [2], preset=dict(enumerate(pv))),
                dict(H=9, W=9, layouts='2x2', passage_draws=list(pv)))
    for (H, W) in [(3, 3), (3, 4), (4, 4)]:
        add(f'memory_rooms-{H}x{W}-1x1', mk_memory_rooms(H, W, (1, 1), (0, 2), (1, 3)), dict(H=H, W=W, layout=[1, 1], num_beacons='0..2', num_exits='1..3'))
    for (H, W, lay) in [(4, 5, (1, 1)), (4, 5, (1, 2)), (5, 4, (2, 1)), (4, 4, (0, 1)), (4, 4, (1, 3))] + ([] if q else [(5, 5, (1, 1)), (5, 5, (2, 2))]):
        add(f'memory_rooms-{H}x{W}-{lay[0]}x{lay[1]}', mk_memory_rooms(H, W, lay, (1, 1), (2, 2)), dict(H=H, W=W, layout=list(lay), num_beacons=1, num_exits=2),
            must_produce('memory_rooms') if lay in [(1, 1), (1, 2), (2, 1)] else None)
    # the shipped (large) shapes with every draw at one of the two extreme values of its interval
    ext = [('empty-8x8', mk_empty(8, 8), 'empty'), ('empty-13x13', mk_empty(13, 13), 'empty'),
           ('keydoor-7x7', mk_keydoor(7, 7), 'keydoor'), ('keydoor-9x9', mk_keydoor(9, 9), 'keydoor'), ('keydoor-6x10', mk_keydoor(6, 10), 'keydoor'),
           ('teleport-7x7', mk_teleport(7, 7), 'teleport'), ('teleport-9x6', mk_teleport(9, 6), 'teleport'),
           ('dynamic_obstacles-7x7', mk_dynamic_obstacles(7, 7), 'dynamic_obstacles'), ('dynamic_obstacles-9x9-k3..4', mk_dynamic_obstacles(9, 9, ks=[3, 4]), 'dynamic_obstacles'),
           ('memory-9x9', mk_memory(9, 9, 'few'), 'memory'), ('memory-8x13', mk_memory(8, 13, 'few'), 'memory'),
           ('rooms-9x9', mk_rooms(9, 9, [2]), 'rooms')]
    if not q:
        ext += [('crossing-9x9', mk_crossing(9, 9), 'crossing'), ('dynamic_obstacles-10x13-k5', mk_dynamic_obstacles(10, 13, ks=[5]), 'dynamic_obstacles'),
                ('crossing-7x11', mk_crossing(7, 11), 'crossing'), ('rooms-10x10', mk_rooms(10, 10, [3]), 'rooms'), ('rooms-13x13', mk_rooms(13, 13, [3]), 'rooms'),
                ('rooms-9x12', mk_rooms(9, 12, [2, 3]), 'rooms'),
                ('memory_rooms-7x7', mk_memory_rooms(7, 7, (2, 2), (1, 1), (2, 2)), 'memory_rooms'), ('memory_rooms-9x9', mk_memory_rooms(9, 9, (2, 2), (1, 1), (2, 2)), 'memory_rooms'),
                ('memory_rooms-10x10', mk_memory_rooms(10, 10, (3, 3), (1, 1), (2, 2)), 'memory_rooms'),
                ('memory_rooms-13x13', mk_memory_rooms(13, 13, (3, 3), (1, 2), (2, 3)), 'memory_rooms'), ('keydoor-13x13', mk_keydoor(13, 13), 'keydoor'),
                ('crossing-13x13', mk_crossing(13, 13), 'crossing')]
    for name, h, lab in ext:
        add('extreme-draws-' + name, with_extremes(h), dict(shape=name.split('-')[-1], draws='every integer draw at the smallest or largest value of its interval'), must_produce(lab))
    return obs
