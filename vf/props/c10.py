"""C10 Doors, keys and boxes respond only to a faced ACTUATE, and only as documented."""
from gym_gridverse.action import Action
from gym_gridverse.grid_object import Box, Color, Door, Floor, GridObject, Key, NoneGridObject

from ..runner import Obligation
from ..stubs import SIGMA_3C, SIGMA_FULL, lazy_state, pre_held, same_object
from ..symx import sym_and
from .common import (ACTIONS, CHAINS, TURNS, components, post_cells, rot,
                     shapes, transition)
from .c09 import desc

PROPERTY = 'C10'
LEVEL = 'other'
SCOPE = ('actuate_door, actuate_box, pickndrop, move/turn alone and the shipped chains, one step from a lazily symbolic state; '
         'every door/box the step read or wrote is compared with its pre-state, the faced cell is always inspected')
BOUNDS = {
    'quick': dict(subclasses='user-defined subclasses of Door and Box in a 10-object alphabet on 1x2 and 2x2', shapes='all HxW with 1<=H,W<=3 except 1x1', alphabet='all kinds, 3 door statuses, 3 colours (45 objects) so that key/door colour '
                  'match and mismatch both occur', held='none or any object (keys of every colour included)', poses='every cell x 4 headings', actions='all 8'),
    'thorough': dict(shapes='all HxW with 1<=H,W<=4 except 1x1', alphabet='full: 5 colours (all 5x5 key/door colour pairs)', held='none or any object',
                     poses='every cell x 4 headings', actions='all 8'),
}
OUTSIDE = ('the safety claim over histories ("a locked door is never found open unless a matching key was used") is the inductive '
           'consequence of the one-step result and is not explored as histories')
ASSUMPTIONS = ['doors/boxes in cells the step never read or wrote are unchanged by construction of the lazy grid']
STUBS = ['LazyRows', 'LazyAgent']
TIME_LIMIT = {'quick': 240, 'thorough': 1500}

class Gem(GridObject, register=False):
    """a user-defined object as the customisation tutorial describes them: holdable, coloured, not a Key"""

    state_index = 0
    color = Color.NONE
    blocks_movement = False
    blocks_vision = False
    holdable = True

    def __init__(self, color):
        self.color = color

    @classmethod
    def can_be_represented_in_state(cls):
        return True

    @classmethod
    def num_states(cls):
        return 1

    def __repr__(self):
        return f'Gem({self.color!s})'


class SlidingDoor(Door, register=False):
    """a user-defined kind of door (subclassing is the documented way to customise objects): it IS a Door"""


class Crate(Box, register=False):
    """a user-defined kind of box"""


def with_subclasses(sigma):
    keep = [e for e in sigma if e[0] in ('Floor', 'Wall', 'Key(YELLOW)', 'Key(RED)', 'Door(LOCKED,YELLOW)', 'Box(Floor)')]
    return keep + [(f'SlidingDoor({st.name},YELLOW)', lambda st=st: SlidingDoor(st, Color.YELLOW)) for st in Door.Status] + [
        ('Crate(Key(YELLOW))', lambda: Crate(Key(Color.YELLOW))), ('Crate(Floor)', lambda: Crate(Floor()))]


def with_gems(sigma, colors):
    return list(sigma) + [(f'Gem({c.name})', lambda c=c: Gem(c)) for c in colors]


FUNCS = ['actuate_door', 'actuate_box', 'pickndrop', 'move_agent', 'turn_agent'] + list(CHAINS)


def mk(fname, H, W, sigma, held_sigma=None):
    f = transition(fname)
    comps = components(fname)

    def h(sx):
        state, world = lazy_state(sx, H, W, sigma, held_sigma=held_sigma)
        a = sx.choice('a', ACTIONS)
        py, px, o = state.agent.position.y, state.agent.position.x, state.agent.orientation
        f(state, a)
        cells = post_cells(state)
        dy, dx = rot(TURNS[o], -1, 0)
        fy, fx = py + dy, px + dx
        front = None
        if a is Action.ACTUATE and sym_and(0 <= fy, fy < H, 0 <= fx, fx < W):
            front = (int(fy), int(fx))
        keys = list(cells)
        if front is not None and front not in cells:
            keys.append(front)
        for k in keys:
            p = world.make(*k)
            q = cells[k] if k in cells else world.make(*k)
            faced = front is not None and k == front
            if isinstance(p, Door):
                sx.check(isinstance(q, Door) and q.color is p.color, 'door-stays-a-door-of-its-colour', f'{k}: {p!r} -> {q!r}')
                opens = False
                if faced and 'actuate_door' in comps:
                    if p.state is Door.Status.CLOSED:
                        opens = True
                        sx.cover('closed-door-actuated')
                    elif p.state is Door.Status.LOCKED:
                        hd = pre_held()
                        opens = isinstance(hd, Key) and hd.color is p.color
                        sx.cover('locked-door-with-matching-key' if opens else 'locked-door-without-matching-key')
                    else:
                        sx.cover('open-door-actuated')
                expect = Door.Status.OPEN if opens else p.state
                sx.check(q.state is expect, 'door-status', f'{k}: {p!r} faced={faced} action={a.name} -> {q!r}, expected {expect.name}')
            elif isinstance(p, Box):
                if faced and 'actuate_box' in comps:
                    sx.cover('box-actuated')
                    sx.check(same_object(q, p.content), 'box-replaced-by-content', f'{k}: {p!r} -> {q!r}')
                else:
                    sx.check(same_object(q, p), 'box-unchanged', f'{k}: {p!r} faced={faced} action={a.name} -> {q!r}')
            else:
                # nothing turns into a door or a box, except a box's own content when it is opened
                if isinstance(q, (Door, Box)) and not same_object(p, q):
                    drop = 'pickndrop' in comps and a is Action.PICK_N_DROP
                    sx.check(drop, 'door-or-box-appeared', f'{k}: {p!r} -> {q!r}')
        # keys are not consumed: actuation never changes the held item
        if a is Action.ACTUATE and state.agent.held_touched():
            sx.check(desc(pre_held(), True) == desc(state.agent.grid_object, True), 'held-unchanged-by-actuate')
    return h


HIST = [e for e in SIGMA_3C if e[0] in ('Floor', 'Door(CLOSED,YELLOW)', 'Door(LOCKED,YELLOW)', 'Door(LOCKED,RED)', 'Key(YELLOW)', 'Box(Key(YELLOW))')]


def mk_history(H, W, nsteps):
    """the door/key/box rule along short histories of the full chain (objects as earlier steps left them; statuses read directly)"""
    f = transition('chain[move,turn,actuate_door,actuate_box,pickndrop]')

    def h(sx):
        state, world = lazy_state(sx, H, W, HIST, held_sigma=[e for e in HIST if e[0].startswith('Key')])
        for step in range(nsteps):
            a = sx.choice(f'a{step}', [Action.ACTUATE, Action.PICK_N_DROP, Action.TURN_LEFT, Action.MOVE_FORWARD])
            py, px, o = state.agent.position.y, state.agent.position.x, state.agent.orientation
            cells = post_cells(state)
            before = {k: (type(v), getattr(v, 'state', None), v.color) for k, v in cells.items()}
            dy, dx = rot(TURNS[o], -1, 0)
            fy, fx = py + dy, px + dx
            expect = None
            if a is Action.ACTUATE and sym_and(0 <= fy, fy < H, 0 <= fx, fx < W):
                k = (int(fy), int(fx))
                obj = cells[k] if k in cells else world.make(*k)
                if isinstance(obj, Door):
                    held = state.agent.grid_object
                    opens = obj.state is Door.Status.CLOSED or (obj.state is Door.Status.LOCKED and isinstance(held, Key) and held.color is obj.color)
                    expect = (k, Door.Status.OPEN if opens else obj.state, obj.color)
                    if step and opens:
                        sx.cover('door-opened-later-in-the-history')
            f(state, a)
            cells = post_cells(state)
            for k, (T0, s0, c0) in before.items():
                v = cells[k]
                if T0 is Door:
                    want = expect[1] if (expect is not None and expect[0] == k) else s0
                    sx.check(isinstance(v, Door) and v.state is want and v.color is c0, f'door-rule-step{step}', f'{k}: {s0} -> {getattr(v, "state", v)} expected {want}')
                    sx.check(bool(v.blocks_movement) == (v.state is not Door.Status.OPEN), f'door-blocks-movement-iff-not-open-step{step}', f'{k}: {v!r} blocks_movement={v.blocks_movement}')
            if expect is not None and expect[0] not in before:
                v = state.grid.objects[expect[0][0]][expect[0][1]]
                sx.check(isinstance(v, Door) and v.state is expect[1] and v.color is expect[2], f'faced-door-rule-step{step}')
        sx.cover('history')
    return h


def blocks(door):
    """what the door itself reports (both flags must agree)"""
    return bool(door.blocks_movement) if bool(door.blocks_movement) == bool(door.blocks_vision) else None


def obligations(tier):
    sigma = SIGMA_3C if tier == 'quick' else SIGMA_FULL
    shp = shapes(3, 3) if tier == 'quick' else shapes(4, 4)
    hist = [Obligation(f'history-{n}steps-{H}x{W}', mk_history(H, W, n), dict(H=H, W=W, steps=n, alphabet=[e[0] for e in HIST]))
            for (H, W, n) in ([(1, 2, 3), (2, 2, 2)] if tier == 'quick' else [(1, 2, 3), (1, 3, 3), (2, 2, 3)])]
    gem_colors = [Color.NONE, Color.RED, Color.YELLOW] if tier == 'quick' else list(Color)
    custom = [Obligation(f'custom-holdable-{fname}-{H}x{W}', mk(fname, H, W, sigma, with_gems(sigma, gem_colors)),
                         dict(function=fname, H=H, W=W, held='the alphabet plus a user-defined holdable coloured object (Gem) of each colour'))
              for fname in ('actuate_door', 'chain[move,turn,actuate_door,pickndrop]') for (H, W) in [(1, 2), (2, 2)]]
    sub = with_subclasses(sigma)
    custom += [Obligation(f'user-defined-door-and-box-subclasses-{fname}-{H}x{W}', mk(fname, H, W, sub, [e for e in sub if e[0].startswith('Key')]),
                          dict(function=fname, H=H, W=W, alphabet=[e[0] for e in sub]))
               for fname in ('actuate_door', 'actuate_box', 'chain[move,turn,actuate_door,actuate_box,pickndrop]') for (H, W) in [(1, 2), (2, 2)]]
    return hist + custom + [Obligation(f'{fname}-{H}x{W}', mk(fname, H, W, sigma), dict(function=fname, H=H, W=W, alphabet=len(sigma)))
                   for fname in FUNCS for (H, W) in shp if H * W > 1]  # 1x1 has no front cell: nothing to assert
