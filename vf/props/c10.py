"""C10 Doors, keys and boxes respond only to a faced ACTUATE, and only as documented."""
from gym_gridverse.action import Action
from gym_gridverse.grid_object import Box, Door, Key, NoneGridObject

from ..runner import Obligation
from ..stubs import SIGMA_3C, SIGMA_FULL, lazy_state, pre_held, same_object
from ..symx import sym_and
from .common import (ACTIONS, CHAINS, TURNS, components, post_cells, rot,
                     shapes, transition)
from .c09 import desc

PROPERTY = 'C10'
LEVEL = 'other'
SCOPE = ('actuate_door, actuate_box, pickndrop, move/turn alone and the shipped chains, one step from a lazily symbolic state; '
         'every door/box the step read or wrote is compared with its pre-state, the faced cell is always inspected')
BOUNDS = {
    'quick': dict(shapes='all HxW with 1<=H,W<=3 except 1x1', alphabet='all kinds, 3 door statuses, 3 colours (45 objects) so that key/door colour '
                  'match and mismatch both occur', held='none or any object (keys of every colour included)', poses='every cell x 4 headings', actions='all 8'),
    'thorough': dict(shapes='all HxW with 1<=H,W<=4 except 1x1', alphabet='full: 5 colours (all 5x5 key/door colour pairs)', held='none or any object',
                     poses='every cell x 4 headings', actions='all 8'),
}
OUTSIDE = ('the safety claim over histories ("a locked door is never found open unless a matching key was used") is the inductive '
           'consequence of the one-step result and is not explored as histories')
ASSUMPTIONS = ['doors/boxes in cells the step never read or wrote are unchanged by construction of the lazy grid']
STUBS = ['LazyRows', 'LazyAgent']
TIME_LIMIT = {'quick': 240, 'thorough': 1500}

FUNCS = ['actuate_door', 'actuate_box', 'pickndrop', 'move_agent', 'turn_agent'] + list(CHAINS)


def mk(fname, H, W, sigma):
    f = transition(fname)
    comps = components(fname)

    def h(sx):
        state, world = lazy_state(sx, H, W, sigma)
        a = sx.choice('a', ACTIONS)
        py, px, o = state.agent.position.y, state.agent.position.x, state.agent.orientation
        f(state, a)
        cells = post_cells(state)
        dy, dx = rot(TURNS[o], -1, 0)
        fy, fx = py + dy, px + dx
        front = None
        if a is Action.ACTUATE and sym_and(0 <= fy, fy < H, 0 <= fx, fx < W):
            front = (int(fy), int(fx))
        keys = list(cells)
        if front is not None and front not in cells:
            keys.append(front)
        for k in keys:
            p = world.make(*k)
            q = cells[k] if k in cells else world.make(*k)
            faced = front is not None and k == front
            if isinstance(p, Door):
                sx.check(isinstance(q, Door) and q.color is p.color, 'door-stays-a-door-of-its-colour', f'{k}: {p!r} -> {q!r}')
                opens = False
                if faced and 'actuate_door' in comps:
                    if p.state is Door.Status.CLOSED:
                        opens = True
                        sx.cover('closed-door-actuated')
                    elif p.state is Door.Status.LOCKED:
                        hd = pre_held()
                        opens = isinstance(hd, Key) and hd.color is p.color
                        sx.cover('locked-door-with-matching-key' if opens else 'locked-door-without-matching-key')
                    else:
                        sx.cover('open-door-actuated')
                expect = Door.Status.OPEN if opens else p.state
                sx.check(q.state is expect, 'door-status', f'{k}: {p!r} faced={faced} action={a.name} -> {q!r}, expected {expect.name}')
            elif isinstance(p, Box):
                if faced and 'actuate_box' in comps:
                    sx.cover('box-actuated')
                    sx.check(same_object(q, p.content), 'box-replaced-by-content', f'{k}: {p!r} -> {q!r}')
                else:
                    sx.check(same_object(q, p), 'box-unchanged', f'{k}: {p!r} faced={faced} action={a.name} -> {q!r}')
            else:
                # nothing turns into a door or a box, except a box's own content when it is opened
                if isinstance(q, (Door, Box)) and not same_object(p, q):
                    drop = 'pickndrop' in comps and a is Action.PICK_N_DROP
                    sx.check(drop, 'door-or-box-appeared', f'{k}: {p!r} -> {q!r}')
        # keys are not consumed: actuation never changes the held item
        if a is Action.ACTUATE and state.agent.held_touched():
            sx.check(desc(pre_held(), True) == desc(state.agent.grid_object, True), 'held-unchanged-by-actuate')
    return h


def obligations(tier):
    sigma = SIGMA_3C if tier == 'quick' else SIGMA_FULL
    shp = shapes(3, 3) if tier == 'quick' else shapes(4, 4)
    return [Obligation(f'{fname}-{H}x{W}', mk(fname, H, W, sigma), dict(function=fname, H=H, W=W, alphabet=len(sigma)))
            for fname in FUNCS for (H, W) in shp if H * W > 1]  # 1x1 has no front cell: nothing to assert
