"""Shared pieces of the representation harnesses (C15, C16, C20)."""
import numpy as np

from gym_gridverse.agent import Agent
from gym_gridverse.geometry import Orientation, Position, Shape
from gym_gridverse.grid import Grid
from gym_gridverse.grid_object import (Beacon, Box, Color, Door, Exit, Floor,
                                       GridObject, Hidden, Key, MovingObstacle,
                                       NoneGridObject, Telepod, Wall)
from gym_gridverse.observation import Observation
from gym_gridverse.representations import observation_representations as ORP
from gym_gridverse.representations import state_representations as SRP
from gym_gridverse.spaces import ObservationSpace, StateSpace
from gym_gridverse.state import State

from ..stubs import ORS
from ..symx import SymBool, SymInt, sym_and, sym_or

REPS = ['default', 'no-overlap', 'compact']

# type sets of the shipped configurations, plus richer ones
TYPE_SETS = {
    'basic': [Wall, Floor, Exit],
    'obstacles': [Wall, Floor, Exit, MovingObstacle],
    'keydoor': [Wall, Floor, Exit, Door, Key],
    'teleport': [Wall, Floor, Exit, Telepod],
    'memory': [Wall, Floor, Exit, Beacon],
    'doors-only': [Floor, Door],
    'all-representable': [Floor, Wall, Exit, Door, Key, MovingObstacle, Telepod, Beacon],
    'repeated-entry': [Floor, Wall, Floor, Door, Key],   # a declaration that lists a type twice (concatenated lists) is the same space
}
COLOR_SETS = {
    'none': [Color.NONE],
    'yellow': [Color.NONE, Color.YELLOW],
    'red': [Color.NONE, Color.RED],
    'green-blue': [Color.GREEN, Color.BLUE],
    'all': list(Color),
}
GO_STATE = {'default': SRP.DefaultGridObjectStateRepresentation, 'no-overlap': SRP.NoOverlapGridObjectStateRepresentation,
            'compact': SRP.CompactGridObjectStateRepresentation}
GO_OBS = {'default': ORP.DefaultGridObjectObservationRepresentation, 'no-overlap': ORP.NoOverlapGridObjectObservationRepresentation,
          'compact': ORP.CompactGridObjectObservationRepresentation}


def make_space(kind, tname, cname, shape):
    types, colors = TYPE_SETS[tname], COLOR_SETS[cname]
    if kind == 'state':
        return StateSpace(shape, types, colors)
    return ObservationSpace(shape, types + ([Box] if tname == 'all-representable' else []), colors)


def member_types(space, kind):
    extra = [NoneGridObject] + ([Hidden] if kind == 'observation' else [])
    return list(dict.fromkeys(list(space.object_types) + extra))


def uses_color(T):
    return T in (Exit, Door, Key, Telepod, Beacon)


class DuckColor:
    def __init__(self, value):
        self.value = value


class Duck:
    """stands for a grid object of type T with symbolic status and colour indices"""

    def __init__(self, T, state_index, color_value):
        self.T = T
        self.state_index = state_index
        self.color = DuckColor(color_value)

    def type_index(self):
        return self.T.type_index()


def sym_duck(sx, space, kind, name):
    T = sx.choice(name + '_type', member_types(space, kind))
    s = sx.int(name + '_status', 0, T.num_states() - 1)
    if uses_color(T):
        c = sx.int(name + '_colour', 0, len(Color) - 1)
        sx.assume(sym_or(*[c == col.value for col in space.colors]))
    else:
        c = 0
    return Duck(T, s, c)


def real_objects(space, kind):
    """every real object of the space: (label, factory)"""
    out = []
    for T in member_types(space, kind):
        if T is Door:
            for st in Door.Status:
                for c in sorted(space.colors, key=lambda c: c.value):
                    out.append((f'Door({st.name},{c.name})', lambda st=st, c=c: Door(st, c)))
        elif T in (Exit, Key, Telepod, Beacon):
            for c in sorted(space.colors, key=lambda c: c.value):
                out.append((f'{T.__name__}({c.name})', lambda T=T, c=c: T(c)))
        elif T is Box:
            out.append(('Box(Floor)', lambda: Box(Floor())))
        else:
            out.append((T.__name__, T))
    return out


def fixed_state(sx, space, objs, H, W, cell_positions=None):
    """a state of the space: Floor-like background, one distinguished symbolic cell, symbolic pose and held item.
    On large alphabets the product (cell content x pose x held item) is split into three slices that each vary one factor."""
    bg = next(f for lab, f in objs if lab == 'Floor')
    cells = [o for o in objs if o[0] not in ('NoneGridObject', 'Hidden')]
    helds = [o for o in objs if o[0] != 'Hidden']
    vary = sx.choice('vary', ['all'] if (len(objs) <= 8 and cell_positions is None) else ['cell', 'pose', 'held'])
    if cell_positions is None:
        cy = int(sx.int('cy', 0, H - 1))
        cx = int(sx.int('cx', 0, W - 1))
    else:
        cy, cx = sx.choice('cpos', cell_positions)
    cell = sx.choice('cell', cells if vary in ('all', 'cell') else cells[-1:])
    rows = [[bg() for _ in range(W)] for _ in range(H)]
    rows[cy][cx] = cell[1]()
    if vary in ('all', 'pose'):
        ay = int(sx.int('ay', 0, H - 1))
        ax = int(sx.int('ax', 0, W - 1))
        o = sx.choice('ao', ORS)
    else:
        ay, ax, o = H - 1, 0, ORS[1]
    held = sx.choice('held', helds if vary in ('all', 'held') else helds[-1:])
    h = held[1]()
    return State(Grid(rows), Agent(Position(ay, ax), o, None if isinstance(h, NoneGridObject) else h)), (cy, cx)


def fixed_observation(sx, space, objs, cell_positions=None):
    H, W = space.grid_shape.height, space.grid_shape.width
    bg = next(f for lab, f in objs if lab == 'Floor')
    cells = [o for o in objs if o[0] != 'NoneGridObject']
    helds = [o for o in objs if o[0] != 'Hidden']
    vary = sx.choice('vary', ['all'] if (len(objs) <= 8 and cell_positions is None) else ['cell', 'held'])
    if cell_positions is None:
        cy = int(sx.int('cy', 0, H - 1))
        cx = int(sx.int('cx', 0, W - 1))
    else:
        cy, cx = sx.choice('cpos', cell_positions)
    cell = sx.choice('cell', cells if vary in ('all', 'cell') else cells[-1:])
    rows = [[bg() for _ in range(W)] for _ in range(H)]
    rows[cy][cx] = cell[1]()
    held = sx.choice('held', helds if vary in ('all', 'held') else helds[-1:])
    h = held[1]()
    return Observation(Grid(rows), Agent(space.agent_position, Orientation.F, None if isinstance(h, NoneGridObject) else h)), (cy, cx)
