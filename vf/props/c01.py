"""C01 Every step from a valid state is a valid transition (closure and totality)."""
import math

import numpy as np
from functools import partial

from gym_gridverse.action import Action
from gym_gridverse.agent import Agent
from gym_gridverse.debugging import reset_gv_debug
from gym_gridverse.envs import observation_functions as OF
from gym_gridverse.envs import reward_functions as RF
from gym_gridverse.envs import terminating_functions as TF
from gym_gridverse.envs.gridworld import GridWorld
from gym_gridverse.geometry import Area, Orientation, Position, Shape
from gym_gridverse.grid import Grid
from gym_gridverse.grid_object import (Beacon, Box, Color, Door, Exit, Floor,
                                       GridObject, Hidden, Key, MovingObstacle,
                                       NoneGridObject, Telepod, Wall)
from gym_gridverse.observation import Observation
from gym_gridverse.spaces import ActionSpace, ObservationSpace, StateSpace
from gym_gridverse.state import State

from ..runner import Obligation
from ..stubs import (ORS, SIGMA_2C, SIGMA_FULL, LazyAgent, SymRng, _LAZY, alphabet,
                     held_item, lazy_grid, lazy_state, pre_held, same_object)
from ..symx import SymBool, sym_and
from .common import ACTIONS, CHAINS, SINGLE, held_touched, post_cells, shapes, transition

PROPERTY = 'C01'
LEVEL = 'other'
SCOPE = ('closure of GridWorld.functional_step per built-in transition function and shipped chain with the local reward/termination '
         'components attached (lazy grids, debug checks off so that laziness is kept; the membership oracle is applied to every '
         'cell the step touched), whole steps with the debug membership checks ON on small fully symbolic grids, observation '
         'closure, action-space rejection, and the three membership predicates against an independent oracle on possibly '
         'ill-formed inputs. Closure of compositions and histories follows by induction from per-component closure.')
BOUNDS = {
    'quick': dict(histories='observation of a state followed by membership of that state (1x3 world with a 1x3 view: the view is the grid for one pose)', lazy_steps='transition closure: shapes 1x1..3x3; each local reward/termination component on next states of the full chain: shapes 1x1..2x2, 1x3, 3x1; 33-object alphabet, every pose/action/held item, every draw',
                  debug_on_steps='shapes 1x2, 2x1 (5-object alphabet) and 2x2 (3-object alphabet), held none/Key, full chain, all poses/actions',
                  predicates='state space 2x2 over {Floor,Wall,Key,Door}x{NONE,YELLOW} (observation space 1x3); candidate states of shape 1x2/2x2/2x3 over a 5-object '
                             'alphabet incl. undeclared type/colour, agent position in [-1,H]x[-1,W], held incl. undeclared',
                  observations='worlds 2x2, views 2x3/3x3/1x1 (stochastic_raytracing: 1x3/1x1), 4 observation functions, 4-object alphabet',
                  action_space='every subset of the 8 actions (256) x every action'),
    'thorough': dict(lazy_steps='shapes 1x1..4x4, 41-object alphabet', debug_on_steps='shapes up to 2x3, 6-object alphabet',
                     predicates='as quick plus 3x2 candidates', observations='worlds up to 2x3, views up to 3x5', action_space='as quick'),
}
OUTSIDE = ('grids larger than the bounds; user-registered components; the scanning rewards (distance shaping, memory) are exercised in C12 '
           'under their documented uniqueness preconditions; float overflow of reward sums')
ASSUMPTIONS = ['documented preconditions: partially_occluded needs the agent on the bottom row of the view; ray-based views need the agent inside the view; observation shapes have odd width',
               'membership oracle = property statement: same shape, declared types only, declared colours only, agent inside, held item of a declared type and colour']
STUBS = ['LazyRows', 'LazyAgent', 'SymRng']
TIME_LIMIT = {'quick': 300, 'thorough': 1800}

ALL_TYPES = [Floor, Wall, Exit, Door, Key, MovingObstacle, Box, Telepod, Beacon]


def local_reward():
    return partial(RF.reduce_sum, reward_functions=[
        partial(RF.reach_exit, reward_on=5.0, reward_off=0.0),
        partial(RF.bump_moving_obstacle, reward=-1.0),
        partial(RF.bump_into_wall, reward=-1.0),
        partial(RF.actuate_door, reward_open=1.0, reward_close=-1.0),
        partial(RF.pickndrop, object_type=Key, reward_pick=1.0, reward_drop=-1.0),
        partial(RF.living_reward, reward=-0.05),
        partial(RF.overlap, object_type=Telepod, reward_on=0.5, reward_off=0.0),
    ])


def local_termination():
    return partial(TF.reduce_any, terminating_functions=[TF.reach_exit, TF.bump_moving_obstacle, TF.bump_into_wall,
                                                         partial(TF.overlap, object_type=Beacon)])


def no_reset(*, rng=None):
    raise AssertionError('reset not used')


def trivial_termination():
    return partial(TF.reduce_any, terminating_functions=[])


def make_env(H, W, types, colors, fname, view=Shape(3, 3), obs='partially_occluded', actions=None, reward=None, termination=None):
    sspace = StateSpace(Shape(H, W), types, colors)
    ospace = ObservationSpace(view, types, colors)
    aspace = ActionSpace(list(Action) if actions is None else actions)
    ofn = partial(getattr(OF, obs), area=ospace.area)
    env = GridWorld(sspace, aspace, ospace, no_reset, transition(fname), ofn,
                    reward if reward is not None else local_reward(), termination if termination is not None else local_termination())
    return env


def state_member_touched(sx, H, W, types, colors, st, label):
    """membership oracle applied to what the step touched (untouched cells are members by assumption)"""
    sx.check(st.grid.shape.height == H and st.grid.shape.width == W, label + '-shape')
    p = st.agent.position
    sx.check(sym_and(0 <= p.y, p.y < H, 0 <= p.x, p.x < W), label + '-agent-in-grid')
    sx.check(isinstance(st.agent.orientation, Orientation), label + '-orientation')
    for k, o in post_cells(st).items():
        sx.check(type(o) in types and o.color in colors, label + '-cell-declared', f'{k}: {o!r}')
    if held_touched(st):
        g = st.agent.grid_object
        sx.check((type(g) in types or isinstance(g, NoneGridObject)) and g.color in colors, label + '-held-declared', repr(g))


LOCAL_REWARDS = {
    'reach_exit': partial(RF.reach_exit, reward_on=5.0, reward_off=0.0),
    'overlap[Telepod]': partial(RF.overlap, object_type=Telepod, reward_on=0.5, reward_off=0.0),
    'bump_moving_obstacle': partial(RF.bump_moving_obstacle, reward=-1.0),
    'bump_into_wall': partial(RF.bump_into_wall, reward=-1.0),
    'actuate_door': partial(RF.actuate_door, reward_open=1.0, reward_close=-1.0),
    'pickndrop[Key]': partial(RF.pickndrop, object_type=Key, reward_pick=1.0, reward_drop=-1.0),
    'living_reward': partial(RF.living_reward, reward=-0.05),
}
LOCAL_TERMS = {
    'reach_exit': TF.reach_exit,
    'bump_moving_obstacle': TF.bump_moving_obstacle,
    'bump_into_wall': TF.bump_into_wall,
    'overlap[Beacon]': partial(TF.overlap, object_type=Beacon),
}


def mk_step(fname, H, W, sigma, reward_f=None, termination_f=None):
    types = ALL_TYPES
    colors = set(Color)

    def h(sx):
        reset_gv_debug(False)
        env = make_env(H, W, types, colors, fname,
                       reward=reward_f if reward_f is not None else LOCAL_REWARDS['living_reward'],
                       termination=termination_f if termination_f is not None else trivial_termination())
        env._rng = SymRng(sx)
        state, world = lazy_state(sx, H, W, sigma)
        a = sx.choice('a', ACTIONS)
        out = env.functional_step(state, a)  # any exception escapes -> violation
        sx.cover('step')
        sx.check(isinstance(out, tuple) and len(out) == 3, 'triple')
        nxt, reward, done = out
        sx.check(isinstance(nxt, State), 'next-state-object')
        state_member_touched(sx, H, W, types, colors, nxt, 'next')
        sx.check(isinstance(reward, float) and math.isfinite(reward), 'reward-finite-float', repr(reward))
        sx.check(isinstance(done, (bool, SymBool, np.bool_)), 'done-bool', repr(done))
    return h


# ---------------------------------------------------------------------------
# whole steps with the debug membership checks ON (small, fully symbolic grids)

SMALL = [e for e in SIGMA_2C if e[0] in ('Floor', 'Wall', 'Key(YELLOW)', 'Door(LOCKED,YELLOW)', 'Exit(NONE)')]
SMALL3 = [e for e in SIGMA_2C if e[0] in ('Floor', 'Key(YELLOW)', 'Door(LOCKED,YELLOW)')]
SMALL6 = SMALL + [e for e in SIGMA_2C if e[0] == 'Box(Key(YELLOW))']
HELD2 = [e for e in SIGMA_2C if e[0] == 'Key(YELLOW)']


def oracle_state_member(st, H, W, types, colors):
    if st.grid.shape.height != H or st.grid.shape.width != W:
        return False
    for y in range(st.grid.shape.height):
        for x in range(st.grid.shape.width):
            o = st.grid.objects[y][x]
            if type(o) not in types or o.color not in colors:
                return False
    p = st.agent.position
    if not (0 <= p.y < H and 0 <= p.x < W):
        return False
    g = st.agent.grid_object
    if not (type(g) in types or isinstance(g, NoneGridObject)):
        return False
    if g.color not in colors:
        return False
    return isinstance(st.agent.orientation, Orientation)


def mk_debug_step(fname, H, W, sigma, obsname):
    types = [Floor, Wall, Key, Door, Exit, Box]
    colors = {Color.NONE, Color.YELLOW}

    def h(sx):
        reset_gv_debug(True)
        try:
            env = make_env(H, W, types, colors, fname, view=Shape(2, 3), obs=obsname)
            env._rng = SymRng(sx)
            state, world = lazy_state(sx, H, W, sigma, held_sigma=HELD2)
            a = sx.choice('a', ACTIONS)
            nxt, reward, done = env.functional_step(state, a)  # ValueError from a debug check escapes -> violation
            sx.cover('debug-step')
            sx.check(oracle_state_member(nxt, H, W, types, colors), 'next-state-member')
            sx.check(env.state_space.contains(nxt), 'contains-accepts-next-state')
            sx.check(isinstance(reward, float) and math.isfinite(reward) and isinstance(done, (bool, np.bool_)), 'reward-done-types')
            ob = env.functional_observation(nxt)
            sx.check(oracle_obs_member(ob, Shape(2, 3), types, colors), 'observation-member')
            sx.check(env.observation_space.contains(ob), 'contains-accepts-observation')
        finally:
            reset_gv_debug(False)
    return h


# ---------------------------------------------------------------------------
# action space


def mk_action_space(H, W):
    def h(sx):
        reset_gv_debug(False)
        mask = int(sx.int('mask', 0, 255))
        allowed = [a for i, a in enumerate(Action) if mask >> i & 1]
        env = make_env(H, W, ALL_TYPES, set(Color), 'turn_agent', actions=allowed)
        state, world = lazy_state(sx, H, W, SMALL[:1] + SMALL[-1:], held_sigma=[])
        a = sx.choice('a', ACTIONS)
        sx.check(env.action_space.contains(a) == (a in allowed), 'action-space-contains')
        py, px, o = state.agent.position.y, state.agent.position.x, state.agent.orientation
        try:
            env.functional_step(state, a)
        except ValueError:
            sx.cover('rejected')
            sx.check(a not in allowed, 'rejects-only-outside')
            rows = state.grid.objects  # reading is allowed; changing is not
            sx.check(not rows.writes and all(same_object(o, world.make(*k)) for k, o in rows.cells.items()), 'rejection-changes-no-cell')
            if state.agent.held_touched():
                sx.check(same_object(state.agent.grid_object, pre_held() or NoneGridObject()), 'rejection-keeps-the-held-item')
            sx.check(sym_and(state.agent.position.y == py, state.agent.position.x == px) and state.agent.orientation is o,
                     'rejection-keeps-pose')
        else:
            sx.cover('accepted')
            sx.check(a in allowed, 'outside-action-accepted')
    return h


def mk_rejected_stateful(H, W):
    """a rejected action changes NOTHING of a live environment either: same state object, same memoised observation, no draw"""
    from .c04 import install, make_env as make_stateful, new_counter, same_obs, states_equal

    def h(sx):
        reset_gv_debug(False)
        counter = new_counter()
        env = make_stateful(H, W, False, counter)
        mask = sx.choice('mask', [0b00111111, 0b00001111, 0b11000000, 0b01010101, 0b00000001, 0b11111110])
        allowed = [a for i, a in enumerate(Action) if mask >> i & 1]
        env.action_space = ActionSpace(allowed)
        rng = SymRng(sx)
        S, world = lazy_state(sx, H, W, SMALL[:2], held_sigma=[])
        install(env, counter, S, rng)
        py, px, po = S.agent.position.y, S.agent.position.x, S.agent.orientation
        read_before = sx.choice('read_before', [True, False])
        memo = env.observation if read_before else None
        n0, c0 = rng.n, counter['obs_calls']
        a = sx.choice('a', ACTIONS)
        sx.assume(a not in allowed)
        try:
            env.step(a)
        except ValueError:
            sx.cover('rejected-stateful')
        else:
            sx.fail('outside-action-accepted-by-step')
        now = env.state
        if now is not S:
            states_equal(sx, now, S, 'rejected-step-keeps-the-state')
        rows = S.grid.objects
        sx.check(not rows.writes and all(same_object(o, world.make(*k)) for k, o in rows.cells.items()), 'rejected-step-changes-no-cell')
        sx.check(sym_and(now.agent.position.y == py, now.agent.position.x == px) and now.agent.orientation is po, 'rejected-step-keeps-the-pose')
        sx.check(rng.n == n0 and counter['obs_calls'] == c0, 'rejected-step-draws-and-computes-nothing')
        if read_before:
            sx.check(same_obs(env.observation, memo) and rng.n == n0 and counter['obs_calls'] == c0, 'observation-after-a-rejected-step-is-still-the-memoised-one')
        else:
            env.observation
            states_equal(sx, counter['obs_states'][-1], S, 'observation-after-a-rejected-step-belongs-to-the-unchanged-state')
    return h


# ---------------------------------------------------------------------------
# membership predicates against the oracle, on possibly ill-formed inputs

CAND = alphabet([Color.NONE, Color.YELLOW, Color.RED], (Door.Status.LOCKED,), exit=False, obstacle=False, box=False, telepod=False, beacon=False)
# Floor, Wall, Door(LOCKED, NONE|YELLOW|RED), Key(NONE|YELLOW|RED)  -> includes an undeclared colour (RED)
CAND = [e for e in CAND if e[0] in ('Floor', 'Door(LOCKED,YELLOW)', 'Key(YELLOW)', 'Key(RED)')]
CAND.append(('Exit(NONE)', Exit))  # undeclared type


def mk_state_contains(SH, SW, H, W):
    types = [Floor, Wall, Key, Door]
    colors = [Color.NONE, Color.YELLOW]

    def h(sx):
        space = StateSpace(Shape(SH, SW), types, colors)
        grid, world = lazy_grid(sx, 'g', H, W, CAND)
        y = sx.int('ay', -1, H)
        x = sx.int('ax', -1, W)
        o = sx.choice('ao', ORS[:2])
        _LAZY['held'] = (sx, CAND, 'held')
        st = State(grid, LazyAgent(Position(y, x), o, 'held'))
        got = space.contains(st)
        exp = oracle_state_member(st, SH, SW, types, set(colors) | {Color.NONE})
        sx.cover('member' if exp else 'non-member')
        sx.check(isinstance(got, (bool, SymBool, np.bool_)), 'contains-returns-bool', repr(got))
        sx.check(bool(got) == exp, 'state-contains-exact', f'contains={got} oracle={exp} shape={H}x{W} space={SH}x{SW}')
    return h


def oracle_obs_member(ob, shape, types, colors):
    colors = set(colors) | {Color.NONE}
    if ob.grid.shape.height != shape.height or ob.grid.shape.width != shape.width:
        return False
    for y in range(ob.grid.shape.height):
        for x in range(ob.grid.shape.width):
            o = ob.grid.objects[y][x]
            if not (type(o) in types or isinstance(o, Hidden)) or o.color not in colors:
                return False
    p = ob.agent.position
    if not (0 <= p.y < shape.height and 0 <= p.x < shape.width):
        return False
    g = ob.agent.grid_object
    return (type(g) in types or isinstance(g, NoneGridObject)) and g.color in colors


def h_contains_after_change(sx):
    """StateSpace.contains is asked, the state is changed in place the way the dynamics do (a box opened: its content, of an
    undeclared type, appears; a door opened; the agent moved out), and it is asked again: the second answer is the oracle's"""
    from gym_gridverse.envs.transition_functions import actuate_box, actuate_door
    types = [Floor, Wall, Box, Door]
    colors = [Color.NONE, Color.YELLOW]
    space = StateSpace(Shape(1, 2), types, colors)
    front = sx.choice('front', [('Box(Key)', lambda: Box(Key(Color.YELLOW))), ('Box(Floor)', lambda: Box(Floor())), ('Box(Box(Wall))', lambda: Box(Box(Wall()))),
                                ('Door(CLOSED,YELLOW)', lambda: Door(Door.Status.CLOSED, Color.YELLOW)), ('Door(CLOSED,RED)', lambda: Door(Door.Status.CLOSED, Color.RED))])
    st = State(Grid([[Floor(), front[1]()]]), Agent(Position(0, 0), Orientation.R))
    first = bool(space.contains(st))
    sx.check(first == oracle_state_member(st, 1, 2, types, set(colors)), 'contains-before')
    change = sx.choice('change', ['actuate', 'move-out', 'hold-undeclared'])
    if change == 'actuate':
        actuate_box(st, Action.ACTUATE)
        actuate_door(st, Action.ACTUATE)
    elif change == 'move-out':
        st.agent.position = Position(0, 2)
    else:
        st.agent.grid_object = Key(Color.YELLOW)
    second = bool(space.contains(st))
    exp = oracle_state_member(st, 1, 2, types, set(colors))
    sx.cover('contains-after-' + change, nontrivial=first != exp)
    sx.check(second == exp, 'contains-after-an-in-place-change', f'{front[0]} {change}: contains={second} oracle={exp}')


OCAND = CAND + [('Hidden', Hidden)]


def mk_obs_contains(SH, SW, H, W):
    types = [Floor, Wall, Key, Door]
    colors = [Color.NONE, Color.YELLOW]

    def h(sx):
        space = ObservationSpace(Shape(SH, SW), types, colors)
        grid, world = lazy_grid(sx, 'g', H, W, OCAND)
        y = sx.int('ay', -1, H)
        x = sx.int('ax', -1, W)
        _LAZY['held'] = (sx, CAND, 'held')
        ob = Observation(grid, LazyAgent(Position(y, x), Orientation.F, 'held'))
        got = space.contains(ob)
        exp = oracle_obs_member(ob, Shape(SH, SW), types, colors)
        sx.cover('member' if exp else 'non-member')
        sx.check(bool(got) == exp, 'observation-contains-exact', f'contains={got} oracle={exp}')
    return h


# ---------------------------------------------------------------------------
# observation closure on lazily symbolic worlds

OBS4 = [e for e in SIGMA_2C if e[0] in ('Floor', 'Wall', 'Door(OPEN,YELLOW)', 'Key(YELLOW)')]


def mk_observation(fname, H, W, vshape):
    types = [Floor, Wall, Key, Door]
    colors = [Color.NONE, Color.YELLOW]

    def h(sx):
        reset_gv_debug(True)
        try:
            sspace = StateSpace(Shape(H, W), types, colors)
            ospace = ObservationSpace(vshape, types, colors)
            env = GridWorld(sspace, ActionSpace(list(Action)), ospace, no_reset, transition('move_agent'),
                            partial(getattr(OF, fname), area=ospace.area), local_reward(), local_termination())
            env._rng = SymRng(sx)
            state, world = lazy_state(sx, H, W, OBS4, held_sigma=OBS4)
            ob = env.functional_observation(state)  # debug check inside raises ValueError if not contained
            sx.cover('observation')
            sx.check(oracle_obs_member(ob, vshape, types, colors), 'observation-member')
            sx.check(ob.grid.shape == vshape, 'observation-shape')
            # asking for its observation leaves the state a member of the state space (it can be stepped afterwards)
            state_member_touched(sx, H, W, types, set(colors), state, 'state-after-its-observation')
        finally:
            reset_gv_debug(False)
    return h


def obligations(tier):
    q = tier == 'quick'
    sigma = SIGMA_2C if q else SIGMA_FULL
    obs = []
    for fname in list(SINGLE) + list(CHAINS):
        scan = fname in ('move_obstacles', 'teleport')
        for (H, W) in (shapes(3, 3) if q else shapes(4, 4)):
            if scan and H * W > (3 if q else 4):
                continue
            s = sigma
            if scan:
                keep = ('Floor', 'Wall', 'MovingObstacle', 'Telepod(NONE)', 'Telepod(YELLOW)')
                s = [e for e in sigma if e[0] in keep]
            obs.append(Obligation(f'step-{fname}-{H}x{W}', mk_step(fname, H, W, s), dict(function=fname, H=H, W=W, alphabet=len(s))))
    full = 'chain[move,turn,actuate_door,actuate_box,pickndrop]'
    # each local reward / termination component on its own, fed with next states produced by the real full chain
    for (H, W) in (shapes(2, 2) + [(1, 3), (3, 1)] if q else shapes(3, 3)):
        for rn, r in LOCAL_REWARDS.items():
            obs.append(Obligation(f'reward-{rn}-{H}x{W}', mk_step(full, H, W, sigma, reward_f=r), dict(reward=rn, dynamics=full, H=H, W=W)))
        for tn, t in LOCAL_TERMS.items():
            obs.append(Obligation(f'termination-{tn}-{H}x{W}', mk_step(full, H, W, sigma, termination_f=t), dict(termination=tn, dynamics=full, H=H, W=W)))
    obs.append(Obligation('reward+termination-composite-2x2', mk_step(full, 2, 2, SMALL, reward_f=local_reward(), termination_f=local_termination()),
                          dict(reward='reduce_sum of the 7 local rewards', termination='reduce_any of the 4 local terminations', alphabet=[e[0] for e in SMALL])))
    for (H, W) in ([(1, 2), (2, 1), (2, 2)] if q else [(1, 2), (2, 1), (2, 2), (2, 3)]):
        for obsname in ('partially_occluded', 'raytracing'):
            if H * W >= 4 and obsname == 'raytracing' and q:
                continue
            sg = (SMALL3 if H * W >= 4 else SMALL) if q else (SMALL if H * W >= 4 else SMALL6)
            obs.append(Obligation(f'debug-step-{obsname}-{H}x{W}', mk_debug_step(full, H, W, sg, obsname),
                                  dict(H=H, W=W, alphabet=[e[0] for e in sg], held=['none', 'Key(YELLOW)'], debug=True)))
    obs.append(Obligation('action-space-1x1', mk_action_space(1, 1), dict(subsets=256, world='1x1 over {Floor, Exit}, turn_agent dynamics')))
    obs.append(Obligation('state-contains-after-in-place-change', h_contains_after_change))
    obs.append(Obligation('rejected-action-stateful-1x2', mk_rejected_stateful(1, 2), dict(subsets=6, interface='InnerEnv.step on a live environment')))
    for (H, W) in ([(1, 2), (2, 2), (2, 3)] if q else [(1, 2), (2, 2), (2, 3), (3, 2)]):
        obs.append(Obligation(f'state-contains-space2x2-cand{H}x{W}', mk_state_contains(2, 2, H, W), dict(space='2x2', candidate=f'{H}x{W}')))
    for (H, W) in ([(1, 3), (2, 1), (1, 1)] if q else [(1, 3), (2, 1), (1, 1), (1, 5)]):
        obs.append(Obligation(f'observation-contains-space1x3-cand{H}x{W}', mk_obs_contains(1, 3, H, W), dict(space='1x3', candidate=f'{H}x{W}')))
    views = [Shape(2, 3), Shape(3, 3), Shape(1, 1)] if q else [Shape(2, 3), Shape(3, 3), Shape(1, 1), Shape(3, 5), Shape(4, 3)]
    worlds = [(2, 2)] if q else [(2, 2), (2, 3), (3, 2)]
    for fname in ('fully_transparent', 'partially_occluded', 'raytracing', 'stochastic_raytracing'):
        # a view exactly as large as the grid (for one pose the view IS the grid)
        obs.append(Obligation(f'observation-{fname}-1x3-view1x3', mk_observation(fname, 1, 3, Shape(1, 3)), dict(function=fname, H=1, W=3, view=[1, 3])))
        for (H, W) in worlds:
            for v in views:
                if fname == 'stochastic_raytracing' and q and v.height * v.width > 3:
                    v = Shape(1, 3)
                    if any(o.name == f'observation-{fname}-{H}x{W}-view1x3' for o in obs):
                        continue
                obs.append(Obligation(f'observation-{fname}-{H}x{W}-view{v.height}x{v.width}', mk_observation(fname, H, W, v),
                                      dict(function=fname, H=H, W=W, view=[v.height, v.width])))
    return obs
