"""C19 Rays are connected paths that sweep the whole area (partial scope: the per-ray clauses for EVERY direction by the solver,
the fan clauses by enumeration)."""
import itertools as _itertools
import math as _math
from fractions import Fraction

import numpy as np

import gym_gridverse.utils.raytracing as RT
from gym_gridverse.envs import visibility_functions as VF
from gym_gridverse.geometry import Area, Position
from gym_gridverse.grid import Grid
from gym_gridverse.grid_object import Floor

from ..runner import Obligation
from ..symx import EngineError, SymInt, SymReal, sym_and, sym_or

PROPERTY = 'C19'
LEVEL = 'other'
SCOPE = ('the real compute_ray is executed with a SYMBOLIC DIRECTION: math.sin / math.cos of the raytracing module are replaced by a stub that '
         'returns an arbitrary pair (s, c) constrained only by |s|,|c| <= 1 and |s|+|c| >= 1-2^-40 (a linear consequence of s^2+c^2 ~ 1), so the '
         'claim covers every angle a caller could pass, not the finite fan. Binary64 arithmetic is NOT treated as real arithmetic: every float '
         'operation of the code (step*s, i*dy, y0+...) yields "exact real result +- an error" bounded by 2^-52 relative to a concrete '
         'magnitude bound (plus 2^-1000 absolute for underflow; the bounds are accumulated into one concrete error radius per value), and round() yields a fresh integer r with r-1/2 <= v <= r+1/2 (both neighbours at '
         'ties): a sound over-approximation in linear real/integer arithmetic. One path per number of samples taken before the ray leaves. '
         'Decided by the solver, per sample index (itertools.count is stubbed to yield i, i+1 for every i below the bound N, or N alone): sample 0 is the origin; '
         'if sample i lies in the area, sample i+1 differs by at most 1 in each coordinate and each coordinate moves monotonically in the quadrant\'s '
         'direction; the cells returned lie in the area and are the rounded samples; sample N lies outside. The whole-ray clauses (no cell re-entered, '
         'de-duplication merges only consecutive repeats, the last cell lies on the border) follow from these by the induction written in DESIGN.md -- '
         'a paper argument, not a solver verdict. '
         'Fan clauses (every cell reached, unobstructed view all-visible, cached == fresh, determinism) are decided by ENUMERATION of the real '
         'compute_rays_fancy / compute_rays / raytracing over all origins of all areas up to the bound: concrete side checks, not solver verdicts, '
         'because the directions are concrete outputs of numpy linspace/arctan2')
BOUNDS = {
    'quick': dict(symbolic='areas 1x1..3x3 all origins; 7x7 (the shipped view) from origin (6,3) and two opposite corners; 4 sign quadrants each; step_size 0.01',
                  enumeration='all areas h,w <= 7 with all origins (fancy fan, raytracing visibility; 1-degree fan on small areas), offsets (0,0) and (-3,-2) for small areas; 8x8, 9x9, 8x10, 10x8, 10x10, 11x11, 7x13, 13x7, 13x13 from corners, edge midpoints and centre'),
    'thorough': dict(symbolic='plus every origin of 5x5 and 7x7, 9x9 corners and centre, 4x7 / 7x4', enumeration='all areas h,w <= 9, 13x13 corners and centre'),
}
OUTSIDE = ('directions are arbitrary only up to the stub contract for sin/cos (validated concretely on every angle of every enumerated fan); '
           'areas beyond the bound; the exact angles of the fan are concrete (enumerated); numpy/libm correctness')
ASSUMPTIONS = ['math.sin(t), math.cos(t) return binary64 values with |s| <= 1, |c| <= 1, |s|+|c| >= 1 - 2^-40',
               'binary64 operations round to nearest: |fl(a op b) - (a op b)| <= 2^-53 |a op b| (or <= 2^-1075 in the subnormal range); '
               'round(x) of a float returns a nearest integer',
               'int -> float conversion of the sample index is exact (index < 2^53)']
STUBS = ['math.sin / math.cos inside gym_gridverse.utils.raytracing (symbolic direction)', 'Fl: binary64 value as real term + bounded rounding error']
TIME_LIMIT = {'quick': 900, 'thorough': 3600}

U = Fraction(1, 2 ** 52)       # relative error bound (2 * unit roundoff: margin)
TINY = Fraction(1, 2 ** 1000)  # absolute error bound covering underflow
EPS = Fraction(1, 2 ** 40)


class Theta:
    """the direction handed to compute_ray: opaque, only sin and cos may look at it"""

    def __repr__(self):
        return '<symbolic angle>'


class Fl:
    """abstract binary64 value: some real in [t - d, t + d], where t is an exact (linear) real term, d a concrete rational error radius
    accumulated over the operations, and |t| + d <= M (a concrete rational magnitude bound)"""

    def __init__(self, env, t, d, M):
        self.env, self.t, self.d, self.M = env, t, Fraction(d), Fraction(M)

    @staticmethod
    def _const(o):
        if isinstance(o, bool) or not isinstance(o, (int, float)):
            return None
        if isinstance(o, int) and abs(o) >= 2 ** 53:
            return None
        return Fraction(o)

    def __rmul__(self, o):
        k = self._const(o)
        if k is None:
            return NotImplemented
        if k == 0 or self.M == 0:
            return Fl(self.env, 0, 0, 0)
        M = abs(k) * self.M
        d = abs(k) * self.d + M * U + TINY   # inherited error scaled, plus the rounding of this multiplication
        return Fl(self.env, k * self.t, d, M + d)

    __mul__ = __rmul__

    def __radd__(self, o):
        k = self._const(o)
        if k is None:
            return NotImplemented
        M = abs(k) + self.M
        d = self.d + (M * U + TINY if self.M != 0 else 0)
        return Fl(self.env, k + self.t, d, M + d)

    __add__ = __radd__

    def __round__(self, ndigits=None):
        if ndigits is not None:
            raise NotImplementedError('round with ndigits on an abstract float')
        return self.env.fresh_round(self)

    def __floor__(self):
        return self.env.fresh_round(self, 'floor')

    def __ceil__(self):
        return self.env.fresh_round(self, 'ceil')

    def __float__(self):
        raise NotImplementedError('abstract float handed to code outside the model')

    __index__ = __float__

    def __trunc__(self):
        return self.env.fresh_round(self, 'trunc')

    def __int__(self):
        return int(self.__trunc__())   # int() insists on a real int: concretised (forks over the possible values)


class RayEnv:
    def __init__(self, sx, sgn_s, sgn_c, cap):
        self.sx, self.n_err, self.rounds, self.cap = sx, 0, [], cap
        a = sx.real('abs_sin', 0, 1)
        b = sx.real('abs_cos', 0, 1)
        sx.assume(a + b >= 1 - EPS)
        self.s = Fl(self, sgn_s * a, 0, 1)
        self.c = Fl(self, sgn_c * b, 0, 1)
        self.theta = Theta()

    def fresh_round(self, fl, mode='round'):
        k = len(self.rounds)
        if k >= 2 * self.cap + 2:
            self.sx.fail('ray-does-not-leave-the-area-within-the-sample-bound', f'{self.cap} samples')
        lo = -int(fl.M) - 2
        r = self.sx.int(f'round{k}', lo, -lo)
        t2, d2 = 2 * fl.t, 2 * fl.d
        if not isinstance(t2, SymReal):   # a constant (first sample, axis-parallel component)
            t2 = Fraction(t2)
        # r is the integer the real float operation returns for SOME value within d of t: total, so no feasibility query
        if mode == 'round':      # a nearest integer (either one at a tie)
            self.sx.define(sym_and(t2 + d2 >= 2 * r - 1, t2 - d2 <= 2 * r + 1))
        elif mode == 'floor':
            self.sx.define(sym_and(t2 + d2 >= 2 * r, t2 - d2 < 2 * r + 2))
        elif mode == 'ceil':
            self.sx.define(sym_and(t2 + d2 > 2 * r - 2, t2 - d2 <= 2 * r))
        else:                    # towards zero
            self.sx.define(sym_or(sym_and(t2 + d2 >= 0, t2 + d2 >= 2 * r, t2 - d2 < 2 * r + 2, r >= 0),
                                  sym_and(t2 - d2 <= 0, t2 + d2 > 2 * r - 2, t2 - d2 <= 2 * r, r <= 0)))
        self.rounds.append(r)
        return r

    # --- the stub module
    def sin(self, t):
        if t is not self.theta:
            return _math.sin(t)
        return self.s

    def cos(self, t):
        if t is not self.theta:
            return _math.cos(t)
        return self.c

    def __getattr__(self, name):
        return getattr(_math, name)


class IndexSource:
    """stands for itertools inside the raytracing module: count() yields the given sample indices instead of 0, 1, 2, ...;
    everything else is the real itertools"""

    def __init__(self, idx):
        self.idx, self.calls = list(idx), 0

    def count(self, *args):
        if args:
            raise NotImplementedError('count() with arguments')
        self.calls += 1
        return iter(self.idx)

    def __getattr__(self, name):
        return getattr(_itertools, name)


def sample_bound(A, origin, step):
    """samples after which every ray has left: the larger step component is >= (1/2 - eps) * step and the farthest border
    is at most (extent + 1/2) away (+ 1/2 slack)"""
    oy, ox = origin
    reach = max(oy - A.ymin, A.ymax - oy, ox - A.xmin, A.xmax - ox) + 1
    return int(reach / (step * 0.49)) + 2


def mk_ray(area, origin, quadrant, step=0.01):
    ys, xs = area
    oy, ox = origin
    sgn_s, sgn_c = quadrant
    A = Area(ys, xs)
    cap = sample_bound(A, origin, step)

    def h(sx):
        env = RayEnv(sx, sgn_s, sgn_c, cap)
        if not isinstance(env.s.t, SymReal) and not isinstance(env.c.t, SymReal):
            # replay of a counterexample: the REAL function, real floats, at the angle of the model's direction
            # (the model's (s, c) need not lie exactly on the unit circle, so nearby angles and the angles of the real fan are tried too;
            # only a malformed ray of the REAL function is reported, anything else is a non-reproducing counterexample)
            theta = _math.atan2(float(Fraction(env.s.t)), float(Fraction(env.c.t)))
            sx.note('theta', theta)
            cands = [theta] + [theta + k * 1e-3 for k in range(-25, 26) if k]
            ys_ = np.linspace(A.ymin, A.ymax + 1, num=A.height + 1) - 0.5 - oy
            xs_ = np.linspace(A.xmin, A.xmax + 1, num=A.width + 1) - 0.5 - ox
            cands += [float(r) for r in np.arctan2(*np.meshgrid(ys_, xs_)).ravel()]
            for th in cands:
                ray = RT.compute_ray(Position(oy, ox), A, radians=th, step_size=step)
                why = ray_ok(ray, (oy, ox), A)
                if why:
                    sx.fail('ray-malformed-on-the-real-code', f'angle {th!r}: {why}: {[(p.y, p.x) for p in ray]}')
            return
        i = int(sx.int('i', 0, cap))
        idx = [i, i + 1] if i < cap else [cap]
        real_math, real_itt = getattr(RT, 'math', None), getattr(RT, 'itt', None)
        if real_math is None or real_itt is None:
            raise EngineError('the raytracing module no longer computes its samples through `math` and `itertools.count()` (names math / itt): '
                              'the per-sample harness cannot drive it (not a verdict; the enumeration obligations still apply)')
        source = IndexSource(idx)
        RT.math, RT.itt = env, source
        try:
            ray = RT.compute_ray(Position(oy, ox), A, radians=env.theta, step_size=step, unique=False)
        finally:
            RT.math, RT.itt = real_math, real_itt
        n = len(ray)
        pairs = [(env.rounds[2 * k], env.rounds[2 * k + 1]) for k in range(len(env.rounds) // 2)]
        if not source.calls or len(env.rounds) % 2 or len(pairs) < min(n + 1, len(idx)) or len(pairs) > len(idx):
            # the function no longer draws its sample indices from itertools.count() / rounds one (y, x) pair per sample: this harness cannot
            # drive it (not a verdict)
            raise EngineError(f'compute_ray is not driven by the stubbed sample indices ({source.calls} index streams, {len(env.rounds)} roundings, {n} cells)')
        sx.check(sym_and(*[sym_and(A.ymin <= p.y, p.y <= A.ymax, A.xmin <= p.x, p.x <= A.xmax) for p in ray]), 'returned-cells-lie-inside-the-area')
        sx.check(sym_and(*[sym_and(ray[k].y == pairs[k][0], ray[k].x == pairs[k][1]) for k in range(n)]), 'returned-cells-are-the-rounded-samples')
        if i == cap:
            sx.cover('exit-lemma')
            sx.check(n == 0, 'every-ray-has-left-the-area-after-the-sample-bound', f'sample {cap} can still be inside')
            return
        if i == 0:
            sx.cover('start-lemma')
            sx.check(sym_and(pairs[0][0] == oy, pairs[0][1] == ox), 'ray-starts-at-its-origin')
        if len(pairs) < 2:
            sx.cover('sample-outside', nontrivial=False)
            return
        sx.cover('step-lemma')
        (y0, x0), (y1, x1) = pairs
        sx.check(sym_and(y1 - y0 <= 1, y0 - y1 <= 1, x1 - x0 <= 1, x0 - x1 <= 1), 'consecutive-samples-are-the-same-or-adjacent-cells', f'samples {i}, {i + 1}')
        sx.check(sym_and((y1 >= y0) if sgn_s > 0 else (y1 <= y0), (x1 >= x0) if sgn_c > 0 else (x1 <= x0)),
                 'coordinates-monotone-along-the-ray (no cell is re-entered)', f'samples {i}, {i + 1}')
    return h


# ---------------------------------------------------------------------------
# enumeration (concrete side checks)


def ray_ok(ray, origin, A):
    """the per-ray clauses on a concrete ray (list of Position, repeats removed)"""
    if not ray or (ray[0].y, ray[0].x) != origin:
        return 'does not start at its origin'
    cells = [(p.y, p.x) for p in ray]
    if any(not A.contains(p) for p in ray):
        return 'leaves the area'
    if len(set(cells)) != len(cells):
        return 'visits a cell twice'
    for (y0, x0), (y1, x1) in zip(cells, cells[1:]):
        if max(abs(y1 - y0), abs(x1 - x0)) != 1:
            return f'jumps from {(y0, x0)} to {(y1, x1)}'
    y, x = cells[-1]
    if y not in (A.ymin, A.ymax) and x not in (A.xmin, A.xmax):
        return f'ends at {(y, x)}, not on the border'
    return None


def stub_contract_ok(rad):
    s, c = _math.sin(rad), _math.cos(rad)
    return abs(s) <= 1 and abs(c) <= 1 and Fraction(abs(s)) + Fraction(abs(c)) >= 1 - EPS


def as_cells(rays):
    return [[(p.y, p.x) for p in r] for r in rays]


def side_fans(shapes, offsets, label):
    """shapes: list of (h, w, origins or None)"""
    def f():
        bad, cases = [], 0

        def viol(lab, msg):
            bad.append(dict(label=lab, message=msg, inputs=dict(inputs={}, notes={})))

        for (h, w, only) in shapes:
            for (dy, dx) in offsets:
                if (dy, dx) != (0, 0) and h * w > 16:
                    continue
                A = Area((dy, dy + h - 1), (dx, dx + w - 1))
                cells = {(p.y, p.x) for p in A.positions()}
                origins = [(y, x) for y in range(h) for x in range(w)] if only is None else only
                for (y, x) in origins:
                    if len(bad) >= 5:
                        break
                    origin = (dy + y, dx + x)
                    P = Position(*origin)
                    fans = ['compute_rays_fancy'] + (['compute_rays'] if (h * w <= 9 and (dy, dx) == (0, 0)) or (h, w, y, x) == (7, 7, 6, 3) else [])
                    for fname in fans:
                        cases += 1
                        cached = getattr(RT, 'cached_' + fname)(P, A)
                        fan = getattr(RT, fname)(P, A)
                        if fname == 'compute_rays_fancy':
                            fancy = fan
                        for ray in fan:
                            why = ray_ok(ray, origin, A)
                            if why:
                                viol('ray-of-the-fan-malformed', f'{fname} area {A} origin {origin}: {why}: {[(p.y, p.x) for p in ray]}')
                                break
                        reached = {c for ray in as_cells(fan) for c in ray}
                        if fname == 'compute_rays_fancy' and reached != cells:
                            viol('fan-does-not-reach-every-cell', f'area {A} origin {origin}: cells {sorted(cells - reached)[:6]} reached by no ray')
                        # other queries in between (another origin of the same area, the same origin in another area), then the same question again
                        other = getattr(RT, 'cached_' + fname)
                        other(Position(A.ymin, A.xmin), A)
                        other(P, Area((A.ymin, A.ymax + 1), (A.xmin, A.xmax)))
                        same = as_cells(fan) == as_cells(cached) == as_cells(other(P, A))
                        if same and h * w <= 9:
                            same = as_cells(getattr(RT, fname)(P, A)) == as_cells(fan)
                        if not same:
                            viol('ray-computation-not-deterministic-or-changed-by-caching', f'{fname} area {A} origin {origin}')
                    if (dy, dx) == (0, 0):
                        cases += 1
                        vis = VF.raytracing(Grid.from_shape((h, w), factory=Floor), P)
                        if not bool(np.all(vis)):
                            viol('unobstructed-ray-traced-view-hides-a-cell', f'{h}x{w} from {origin}: {np.argwhere(~np.asarray(vis, dtype=bool)).tolist()[:6]}')
                        # the visibility function only reads the memoised fan
                        if as_cells(RT.cached_compute_rays_fancy(P, A)) != as_cells(fancy):
                            viol('ray-computation-not-deterministic-or-changed-by-caching', f'fancy fan of area {A} origin {origin} differs after raytracing() used it')
                    # the stub contract of the symbolic obligations holds for every direction of this fan
                    ys = np.linspace(A.ymin, A.ymax + 1, num=A.height + 1) - 0.5 - P.y
                    xs = np.linspace(A.xmin, A.xmax + 1, num=A.width + 1) - 0.5 - P.x
                    for rad in np.arctan2(*np.meshgrid(ys, xs)).ravel():
                        if not stub_contract_ok(float(rad)):
                            viol('stub-contract-of-sin-cos-violated (harness assumption)', repr(float(rad)))
        for deg in range(360):
            if not stub_contract_ok(deg * _math.pi / 180.0):
                viol('stub-contract-of-sin-cos-violated (harness assumption)', f'{deg} degrees')
        return dict(cases=cases, violations=bad[:5],
                    detail=f'{label}: every ray of every fancy fan (all origins; offsets {offsets} for areas of at most 16 cells) and of the 1-degree fan (areas of at most 9 cells, '
                           f'7x7 from (6,3)): starts at origin, inside, no repeats, adjacent steps, ends on border; the fancy fan reaches every cell; raytracing on an '
                           f'all-Floor grid is all-visible; fresh == cached == cached again (== fresh again on small areas); sin/cos stub contract holds on every fan angle')
    return f


QUADRANTS = [(1, 1), (1, -1), (-1, 1), (-1, -1)]


def steps_in_use():
    """the step sizes the fan functions actually hand to compute_ray (read off the real call sites by running them once)"""
    seen = set()
    real = RT.compute_ray

    def rec(position, area, **kw):
        seen.add(kw.get('step_size'))
        return real(position, area, **kw)

    RT.compute_ray = rec
    try:
        RT.compute_rays_fancy(Position(0, 0), Area((0, 1), (0, 1)))
        RT.compute_rays(Position(0, 0), Area((0, 1), (0, 1)))
    finally:
        RT.compute_ray = real
    if not seen or any(not isinstance(v, (int, float)) or not v > 0 for v in seen):
        raise EngineError(f'cannot read the step sizes of the fan functions: {seen!r}')
    return sorted(seen)


def obligations(tier):
    q = tier == 'quick'
    obs = []
    todo = []
    for h in range(1, 4):
        for w in range(1, 4):
            todo += [((0, h - 1), (0, w - 1), (y, x)) for y in range(h) for x in range(w)]
    seven = ((0, 6), (0, 6))
    if q:
        todo += [(*seven, o) for o in [(6, 3), (0, 0), (6, 6)]]
        todo += [((-6, 0), (-3, 3), (0, 0))]
    else:
        todo += [(*seven, (y, x)) for y in range(7) for x in range(7)]
        todo += [((0, 4), (0, 4), (y, x)) for y in range(5) for x in range(5)]
        todo += [((0, 8), (0, 8), o) for o in [(0, 0), (8, 8), (4, 4), (8, 4)]]
        todo += [((0, 3), (0, 6), o) for o in [(3, 3), (0, 0), (3, 6)]] + [((0, 6), (0, 3), o) for o in [(6, 1), (0, 3)]]
        todo += [((-6, 0), (-3, 3), (0, 0))]
    for step in steps_in_use():
        for (ys, xs, o) in todo:
            for qd in QUADRANTS:
                name = f'ray-area[{ys[0]}..{ys[1]}]x[{xs[0]}..{xs[1]}]-origin{o[0]},{o[1]}-dir{"+" if qd[0] > 0 else "-"}{"+" if qd[1] > 0 else "-"}' + ('' if step == 0.01 else f'-step{step}')
                obs.append(Obligation(name, mk_ray((ys, xs), o, qd, step), dict(area=[list(ys), list(xs)], origin=list(o), sign_sin=qd[0], sign_cos=qd[1], step_size=step,
                                                                              samples=sample_bound(Area(ys, xs), o, step))))
    top = 7 if q else 9
    for h in range(1, top + 1):
        obs.append(Obligation(f'side-fans-height{h}', side_fans([(h, w, None) for w in range(1, top + 1)], [(0, 0), (-3, -2)], f'areas {h}x1..{h}x{top}'), kind='concrete'))
    def rim(h, w):  # corners, edge midpoints, centre
        return sorted({(y, x) for y in (0, h // 2, h - 1) for x in (0, w // 2, w - 1)})
    for group in ([(8, 8), (9, 9), (8, 10), (10, 8)], [(10, 10), (11, 11), (7, 13), (13, 7)], [(13, 13)]):
        obs.append(Obligation('side-fans-large-' + '-'.join(f'{h}x{w}' for h, w in group), side_fans([(h, w, rim(h, w)) for h, w in group], [(0, 0)],
                                                                                                    'larger areas from corners, edge midpoints and centre'), kind='concrete'))
    if not q:
        obs.append(Obligation('side-fans-13x13', side_fans([(13, 13, [(0, 0), (12, 12), (6, 6), (12, 6)])], [(0, 0)], 'area 13x13 corners, centre, bottom centre'), kind='concrete'))
    return obs
