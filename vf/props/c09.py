"""C09 Objects are conserved: nothing is created, destroyed, duplicated or recoloured."""
from collections import Counter

from gym_gridverse.action import Action
from gym_gridverse.grid_object import (Box, Door, Floor, Key, MovingObstacle,
                                       NoneGridObject)

from ..runner import Obligation
from ..stubs import SIGMA_2C, SIGMA_FULL, SymRng, lazy_state, pre_held, same_object
from ..symx import sym_and
from .common import (ACTIONS, CHAINS, SINGLE, TURNS, components, held_touched, holdable,
                     post_cells, rot, shapes, transition)

PROPERTY = 'C09'
LEVEL = 'other'
SCOPE = ('every built-in transition function and the shipped chains (in place, and through transition_with_copy as functional_step does), one step from a lazily symbolic state: '
         'multiset conservation, no duplicated instance, frame rule (which cell may change and how), exact pick/drop/swap oracle')
BOUNDS = {
    'quick': dict(shapes='all HxW with 1<=H,W<=3 (move_obstacles/teleport: H*W<=3... see C11 for their layouts)',
                  alphabet='all object kinds and door statuses, 2 colours (33 objects)', held='none or any object of the alphabet',
                  poses='every cell x 4 headings', actions='all 8', draws='every outcome of every draw'),
    'thorough': dict(shapes='all HxW with 1<=H,W<=4 plus 5x5', alphabet='full alphabet (41 objects)', held='none or any object',
                     poses='every cell x 4 headings', actions='all 8', draws='every outcome'),
}
OUTSIDE = 'larger grids; histories are covered by induction (each step conserves, so every chain of steps does)'
ASSUMPTIONS = ['holdable objects are exactly the keys (restated, not read from the objects)',
               'cells the code never read or wrote are unchanged by construction of the lazy grid (LazyRows contract)']
STUBS = ['LazyRows', 'LazyAgent (held item chosen on first access)', 'SymRng']
TIME_LIMIT = {'quick': 240, 'thorough': 1500}


def desc(o, door_status=False):
    """value descriptor of an object; door status left out unless asked (status changes belong to C10)"""
    if o is None or isinstance(o, NoneGridObject):
        return None
    if isinstance(o, Box):
        return ('Box', desc(o.content, True))
    if isinstance(o, Door):
        return ('Door', o.color.name) + ((o.state.name,) if door_status else ())
    return (type(o).__name__, getattr(o, 'color').name)


def instances(o, acc):
    acc.append(o)
    if isinstance(o, Box):
        instances(o.content, acc)


def mk(fname, H, W, sigma, held_sigma=None, via_copy=False):
    f = transition(fname)
    comps = components(fname)

    def h(sx):
        state, world = lazy_state(sx, H, W, sigma, held_sigma=held_sigma)
        a = sx.choice('a', ACTIONS)
        py, px, o = state.agent.position.y, state.agent.position.x, state.agent.orientation
        if via_copy:  # the non-in-place path used by GridWorld.functional_step: copy, then transform the copy
            from gym_gridverse.envs.transition_functions import transition_with_copy
            inp = state
            state = transition_with_copy(f, inp, a, rng=SymRng(sx))
            sx.check(not inp.grid.objects.writes, 'input-not-written')
        else:
            f(state, a, rng=SymRng(sx))
        cells = post_cells(state)
        touched_held = held_touched(state)
        # front cell of the PRE pose (for ACTUATE / PICK_N_DROP no earlier component of a chain changes the pose)
        dy, dx = rot(TURNS[o], -1, 0)
        fy, fx = py + dy, px + dx
        front_in = sym_and(0 <= fy, fy < H, 0 <= fx, fx < W)
        acts_on_front = ((a is Action.PICK_N_DROP and 'pickndrop' in comps)
                         or (a is Action.ACTUATE and ('actuate_box' in comps or 'actuate_door' in comps)))
        front = None
        if acts_on_front and front_in:
            front = (int(fy), int(fx))

        pre = {k: world.make(*k) for k in cells}
        if front is not None and front not in pre:
            pre[front] = world.make(*front)
        post = {k: cells.get(k, None) for k in pre}
        for k in pre:
            if post[k] is None:  # read by the harness only: untouched, hence unchanged
                post[k] = world.make(*k)
        h0 = pre_held() if (touched_held or (front is not None and a is Action.PICK_N_DROP)) else None
        h1 = state.agent.grid_object if (touched_held or (front is not None and a is Action.PICK_N_DROP)) else None
        if isinstance(h1, NoneGridObject):
            h1 = None
        track_held = touched_held or (front is not None and a is Action.PICK_N_DROP)

        # ---- multiset conservation (door status ignored; a box opened in front is replaced by its content)
        before = Counter(desc(pre[k]) for k in pre if not isinstance(pre[k], Floor))
        after = Counter(desc(post[k]) for k in post if not isinstance(post[k], Floor))
        if track_held:
            if h0 is not None and not isinstance(h0, Floor):
                before[desc(h0)] += 1
            if h1 is not None and not isinstance(h1, Floor):
                after[desc(h1)] += 1
        if a is Action.ACTUATE and 'actuate_box' in comps and front is not None and isinstance(pre[front], Box):
            before[desc(pre[front])] -= 1
            c = pre[front].content
            if not isinstance(c, Floor):
                before[desc(c)] += 1
            sx.cover('box-opened')
        before = +before
        after = +after
        sx.check(before == after, 'multiset-conserved', f'{dict(before)} -> {dict(after)}')

        # ---- no instance occurs twice
        inst = []
        for k in cells:
            instances(cells[k], inst)
        if touched_held and h1 is not None:
            instances(h1, inst)
        # identity matters for objects that carry mutable state (doors, boxes); stateless objects are compared by value above
        inst = [i for i in inst if isinstance(i, (Door, Box))]
        sx.check(len({id(i) for i in inst}) == len(inst), 'no-duplicate-instance')

        # ---- frame rule: which cells may differ, and how
        for k in pre:
            p, q = pre[k], post[k]
            if same_object(p, q):
                continue
            if isinstance(p, Door) and isinstance(q, Door) and p.color is q.color:
                continue  # status change: C10
            is_front = front is not None and k == front
            if is_front and a is Action.PICK_N_DROP:
                continue  # exact oracle below
            if is_front and a is Action.ACTUATE and 'actuate_box' in comps and isinstance(p, Box):
                sx.check(same_object(q, p.content), 'box-replaced-by-content')
                continue
            if fname == 'move_obstacles' and ((isinstance(p, MovingObstacle) and isinstance(q, Floor))
                                              or (isinstance(p, Floor) and isinstance(q, MovingObstacle))):
                sx.cover('obstacle-swap')
                continue
            sx.fail('cell-changed-unexpectedly', f'{k}: {p!r} -> {q!r}')

        # ---- pick and drop: exactly one of pick / drop / swap / nothing, on the in-grid front cell only
        if 'pickndrop' in comps and a is Action.PICK_N_DROP:
            if front is None:
                sx.cover('pnd-front-outside')
                sx.check(all(same_object(pre[k], post[k]) for k in pre), 'pnd-outside-grid-changes-nothing')
                if touched_held:
                    sx.check(desc(pre_held(), True) == desc(state.agent.grid_object, True), 'pnd-outside-grid-keeps-held')
            else:
                F, Hd = pre[front], h0
                if holdable(F) and Hd is None:
                    exp_front, exp_held, lab = Floor(), F, 'pnd-pick'
                elif holdable(F):
                    exp_front, exp_held, lab = Hd, F, 'pnd-swap'
                elif isinstance(F, Floor) and Hd is not None:
                    exp_front, exp_held, lab = Hd, None, 'pnd-drop'
                else:
                    exp_front, exp_held, lab = F, Hd, 'pnd-nothing'
                sx.cover(lab)
                sx.check(same_object(post[front], exp_front), lab + '-front', f'front {F!r} held {Hd!r} -> front {post[front]!r}')
                sx.check(desc(h1, True) == desc(exp_held, True), lab + '-held', f'front {F!r} held {Hd!r} -> held {h1!r}')
        elif track_held:
            sx.check(desc(h0, True) == desc(h1, True), 'held-unchanged-without-pickndrop')
    return h


HIST = [e for e in SIGMA_2C if e[0] in ('Floor', 'Key(YELLOW)', 'Door(CLOSED,YELLOW)', 'Box(Key(YELLOW))', 'Box(Box(Floor))')]


def mk_history(H, W, nsteps):
    """conservation along short histories of the full chain, on the objects the earlier steps produced (all cells read up front)"""
    f = transition('chain[move,turn,actuate_door,actuate_box,pickndrop]')

    def inventory(state):
        c = Counter()
        for y in range(H):
            for x in range(W):
                o = state.grid.objects[y][x]
                if not isinstance(o, Floor):
                    c[desc(o)] += 1
        g = state.agent.grid_object
        if not isinstance(g, (NoneGridObject, Floor)):
            c[desc(g)] += 1
        return c

    def h(sx):
        state, world = lazy_state(sx, H, W, HIST, held_sigma=[e for e in HIST if e[0].startswith('Key')])
        inv = inventory(state)
        for step in range(nsteps):
            a = sx.choice(f'a{step}', [Action.ACTUATE, Action.PICK_N_DROP, Action.TURN_LEFT, Action.MOVE_FORWARD])
            py, px, o = state.agent.position.y, state.agent.position.x, state.agent.orientation
            dy, dx = rot(TURNS[o], -1, 0)
            fy, fx = py + dy, px + dx
            exp = Counter(inv)
            if a is Action.ACTUATE and sym_and(0 <= fy, fy < H, 0 <= fx, fx < W):
                front = state.grid.objects[int(fy)][int(fx)]
                if isinstance(front, Box):
                    exp[desc(front)] -= 1
                    if not isinstance(front.content, Floor):
                        exp[desc(front.content)] += 1
                    sx.cover('box-opened-in-history' if step else 'box-opened')
            f(state, a)
            inv = inventory(state)
            sx.check(+exp == +inv, f'multiset-conserved-step{step}', f'action {a.name}: {dict(+exp)} -> {dict(+inv)}')
            stateful = [o for row in state.grid.objects for o in row if isinstance(o, (Door, Box))]
            sx.check(len({id(o) for o in stateful}) == len(stateful), f'no-duplicate-instance-step{step}')
        sx.cover('history')
    return h


def obligations(tier):
    sigma = SIGMA_2C if tier == 'quick' else SIGMA_FULL
    shp = shapes(3, 3) if tier == 'quick' else shapes(4, 4) + [(5, 5)]
    obs = []
    for fname in list(SINGLE) + list(CHAINS):
        scan = fname in ('move_obstacles', 'teleport')
        for (H, W) in shp:
            if scan and H * W > (3 if tier == 'quick' else 4):
                continue
            s, hs = sigma, None
            if scan:
                keep = ('Floor', 'Wall', 'MovingObstacle') if fname == 'move_obstacles' else ('Floor', 'Telepod(NONE)', 'Telepod(YELLOW)')
                s = [e for e in sigma if e[0] in keep]
                hs = []
            obs.append(Obligation(f'{fname}-{H}x{W}', mk(fname, H, W, s, hs),
                                  dict(function=fname, H=H, W=W, alphabet=[e[0] for e in s] if scan else len(s))))
    for (H, W, n) in ([(1, 2, 3), (1, 3, 2)] if tier == 'quick' else [(1, 2, 3), (1, 3, 3), (2, 2, 2)]):
        obs.append(Obligation(f'history-{n}steps-{H}x{W}', mk_history(H, W, n), dict(H=H, W=W, steps=n, alphabet=[e[0] for e in HIST])))
    # the same oracle through transition_with_copy (what functional_step does): objects must survive the copy as well
    boxes = [e for e in sigma if e[0] in ('Floor', 'Wall', 'Key(YELLOW)', 'Box(Floor)', 'Box(Key(YELLOW))', 'Box(Box(Floor))', 'Door(CLOSED,YELLOW)')]
    for fname in ['chain[move,turn,actuate_door,actuate_box,pickndrop]', 'pickndrop', 'actuate_box']:
        for (H, W) in ([(1, 2), (2, 2), (1, 3)] if tier == 'quick' else [(1, 2), (2, 2), (1, 3), (2, 3)]):
            obs.append(Obligation(f'via-copy-{fname}-{H}x{W}', mk(fname, H, W, boxes, None, via_copy=True),
                                  dict(function=fname, H=H, W=W, path='transition_with_copy', alphabet=[e[0] for e in boxes])))
    return obs
