"""C04 The stateful interface mirrors the functional one; observations are never stale."""
from functools import partial

from gym_gridverse.action import Action
from gym_gridverse.debugging import reset_gv_debug
from gym_gridverse.envs import observation_functions as OF
from gym_gridverse.envs import reward_functions as RF
from gym_gridverse.envs import terminating_functions as TF
from gym_gridverse.envs import transition_functions as T
from gym_gridverse.envs.gridworld import GridWorld
from gym_gridverse.geometry import Area, Shape
from gym_gridverse.grid_object import Color, Exit, Floor, Key, MovingObstacle, Wall
from gym_gridverse.outer_env import OuterEnv
from gym_gridverse.spaces import ActionSpace, ObservationSpace, StateSpace
from gym_gridverse.utils.fast_copy import fast_copy

from ..runner import Obligation
from ..stubs import SIGMA_2C, SymRng, lazy_state, same_object
from ..symx import sym_and
from .common import ACTIONS, held_touched, post_cells

PROPERTY = 'C04'
LEVEL = 'other'
SCOPE = ('one inductive step of the stateful InnerEnv/GridWorld interface from an arbitrary pre-state: a real GridWorld whose current state is a '
         'lazily symbolic state and whose memoised observation is either absent or the one computed from that state; a symbolic operation '
         'among reset / step(a) / read observation (once, twice) / read state. The outcome is compared with the functional interface run on an '
         'equal copy with the same draws; the relation "memo is None or was computed from the current state" is shown to be preserved, which '
         'covers histories of any length and any read pattern by induction. OuterEnv delegation is checked with recording representations')
BOUNDS = {
    'quick': dict(shapes='1x2, 2x2 (deterministic chain move+turn+actuate_door+pickndrop, 8-object alphabet) and 1x3 (stochastic chain move+turn+move_obstacles, 3-object alphabet)',
                  operations='reset, step(a) for all 8 actions, observation, observation twice, state, step followed by two reads',
                  memo='None or previously computed from the current state', draws='every outcome; the observation function draws once per computation so recomputation is visible'),
    'thorough': dict(shapes='plus 2x3 and 3x3', operations='same', memo='same', draws='same'),
}
OUTSIDE = 'third-party subclasses of InnerEnv; representations themselves (C15/C16); gym layer (C20)'
ASSUMPTIONS = ['the observation function used here wraps the real fully_transparent/partially_occluded function and additionally draws one number from the rng it is given, so that a recomputation is observable as a draw']
STUBS = ['LazyRows', 'LazyAgent', 'SymRng', 'AdversarialId (the builtin id(), constrained only by its documented contract: unique among simultaneously existing objects)', 'recording stand-ins for StateRepresentation/ObservationRepresentation (OuterEnv only)']
TIME_LIMIT = {'quick': 300, 'thorough': 1800}

SMALL8 = [e for e in SIGMA_2C if e[0] in ('Floor', 'Wall', 'Exit(NONE)', 'Key(YELLOW)', 'Door(OPEN,YELLOW)', 'Door(LOCKED,YELLOW)', 'Door(CLOSED,YELLOW)', 'MovingObstacle')]
OBST3 = [e for e in SIGMA_2C if e[0] in ('Floor', 'Wall', 'MovingObstacle')]


class ReplayRng(SymRng):
    """hands out again, in order, the draws recorded by another SymRng (the functional twin gets 'the same seed')"""

    def __init__(self, sx, log):
        SymRng.__init__(self, sx, 'twin')
        self.src = list(log)

    def _fresh(self, lo, hi):
        v = self.src[self.n]
        self.n += 1
        return v

    def random(self, size=None):
        import numpy as np
        if size is None:
            return self._fresh(0, 1)
        shape = (size,) if isinstance(size, int) else tuple(size)
        out = np.empty(shape, dtype=object)
        for i in np.ndindex(*shape):
            out[i] = self._fresh(0, 1)
        return out


def new_counter():
    return dict(obs_calls=0, obs_states=[], obs_tags=[], reset_calls=0, reset_rngs=[], reset_state=None)


def make_env(H, W, stochastic, counter, obs_wrap=None):
    types = [Floor, Wall, Exit, Key, MovingObstacle]
    tf = [T.move_agent, T.turn_agent] + ([T.move_obstacles] if stochastic else [T.actuate_door, T.pickndrop])
    ospace = ObservationSpace(Shape(1, 1), types, [Color.NONE, Color.YELLOW])  # 1x1 view: the content of observations is C05's business

    def obs_f(state, *, rng=None):
        counter['obs_calls'] += 1
        if obs_wrap is not None:
            obs_wrap(state)
        else:
            counter['obs_states'].append(state)
        tag = rng.integers(0, 2)  # a stochastic observation function: one draw per computation
        ob = OF.fully_transparent(state, area=ospace.area, rng=rng)
        counter['obs_tags'].append(tag)
        return ob

    def reset_f(*, rng=None):
        counter['reset_calls'] += 1
        counter['reset_rngs'].append(rng)
        return counter['reset_state']

    env = GridWorld(StateSpace(Shape(H, W), types, [Color.NONE, Color.YELLOW]), ActionSpace(list(Action)), ospace,
                    reset_f, partial(T.chain, transition_functions=tf), obs_f,
                    partial(RF.reduce_sum, reward_functions=[partial(RF.reach_exit, reward_on=5.0, reward_off=0.0), partial(RF.living_reward, reward=-0.05)]),
                    partial(TF.reduce_any, terminating_functions=[TF.reach_exit, TF.bump_moving_obstacle]))
    return env


def install(env, counter, S, rng):
    """puts the environment into state S through its public interface: the reset function (ours) returns S. The generator is the one
    attribute set directly (GridWorld._rng, named by the properties' anchors; set_seed can only install a numpy generator)"""
    env._rng = rng
    counter['reset_state'] = S
    env.reset()
    counter['reset_state'] = None
    counter['reset_calls'] = 0
    del counter['reset_rngs'][:]


def states_equal(sx, A, B, lab):
    if A is B:
        return
    sx.check(sym_and(A.agent.position.y == B.agent.position.y, A.agent.position.x == B.agent.position.x) and A.agent.orientation is B.agent.orientation,
             lab + '-pose')
    if held_touched(A) or held_touched(B):
        sx.check(same_object(A.agent.grid_object, B.agent.grid_object), lab + '-held')
    for k in set(post_cells(A)) | set(post_cells(B)):
        sx.check(same_object(A.grid.objects[k[0]][k[1]], B.grid.objects[k[0]][k[1]]), lab + '-cell', str(k))


def same_obs(a, b):
    return a is b or bool(a == b)


OPS = ['reset', 'step', 'observation', 'observation-twice', 'state', 'step-then-reads']


def mk(H, W, stochastic, op):
    sigma = OBST3 if stochastic else SMALL8

    def h(sx):
        reset_gv_debug(False)
        counter = new_counter()
        env = make_env(H, W, stochastic, counter)
        rng = SymRng(sx)
        S, world = lazy_state(sx, H, W, sigma, held_sigma=[e for e in sigma if e[0].startswith('Key')])
        install(env, counter, S, rng)
        memo = sx.choice('memo', ['none', 'computed'])
        memo0 = None
        if memo == 'computed':  # pre-state: the observation of the current state has been read before
            memo0 = env.observation
        calls0, draws0 = counter['obs_calls'], rng.n
        sx.cover(op)
        if op == 'reset':
            fresh, _ = lazy_state(sx, H, W, sigma, name='r', held_sigma=[], agent='r', held='rheld')
            counter['reset_state'] = fresh
            env.reset()
            sx.check(counter['reset_calls'] == 1 and counter['reset_rngs'][0] is rng, 'reset-calls-the-reset-function-once-with-the-env-rng')
            states_equal(sx, env.state, fresh, 'reset-installs-the-functional-reset-state')
            c0 = counter['obs_calls']
            ob = env.observation
            sx.check(counter['obs_calls'] == c0 + 1, 'observation-recomputed-after-reset')
            states_equal(sx, counter['obs_states'][-1], fresh, 'observation-after-reset-belongs-to-the-new-state')
        elif op in ('step', 'step-then-reads'):
            a = sx.choice('a', ACTIONS)
            twin_in = fast_copy(S)
            n0 = rng.n
            out = env.step(a)
            sx.check(isinstance(out, tuple) and len(out) == 2, 'step-returns-(reward, done)')
            reward, done = out
            draws = rng.log[n0:]
            twin = make_env(H, W, stochastic, new_counter())
            twin._rng = ReplayRng(sx, draws)
            nxt, r2, d2 = twin.functional_step(twin_in, a)
            states_equal(sx, env.state, nxt, 'step-state-equals-functional-step')
            sx.check(reward == r2 and bool(done) == bool(d2), 'step-reward-and-flag-equal-functional-step', f'{reward},{done} vs {r2},{d2}')
            sx.check(twin._rng.n == len(draws), 'functional-twin-consumes-the-same-draws')
            if op == 'step-then-reads':
                c0 = counter['obs_calls']
                ob1 = env.observation
                n1 = rng.n
                ob2 = env.observation
                sx.check(counter['obs_calls'] == c0 + 1, 'observation-recomputed-once-after-the-step',
                         f'observation function called {counter["obs_calls"] - c0} times at the two reads')
                states_equal(sx, counter['obs_states'][-1], env.state, 'observation-computed-from-the-post-step-state')
                states_equal(sx, counter['obs_states'][-1], nxt, 'observation-computed-from-the-functional-next-state')
                sx.check(same_obs(ob2, ob1) and rng.n == n1, 'second-read-returns-the-same-observation-without-a-draw')
        elif op in ('observation', 'observation-twice'):
            ob1 = env.observation
            if memo == 'computed':
                sx.check(same_obs(ob1, memo0) and counter['obs_calls'] == calls0 and rng.n == draws0, 'memoised-observation-returned-without-recomputation')
            else:
                sx.check(counter['obs_calls'] == calls0 + 1, 'observation-computed-once')
                states_equal(sx, counter['obs_states'][-1], S, 'observation-computed-from-the-current-state')
                sx.check(rng.n == draws0 + 1, 'one-computation-one-draw')
            if op == 'observation-twice':
                n1, c1 = rng.n, counter['obs_calls']
                ob2 = env.observation
                sx.check(same_obs(ob2, ob1) and rng.n == n1 and counter['obs_calls'] == c1, 'repeated-read-same-observation-no-draw')
            states_equal(sx, env.state, S, 'reading-the-observation-keeps-the-state')
        elif op == 'state':
            states_equal(sx, env.state, S, 'state-returns-the-current-state')
            sx.check(counter['obs_calls'] == calls0 and rng.n == draws0, 'reading-the-state-computes-nothing')
            ob = env.observation  # the memo (or its absence) survived the read
            sx.check(counter['obs_calls'] == calls0 + (0 if memo == 'computed' else 1), 'reading-the-state-keeps-the-memo')
            if memo == 'computed':
                sx.check(same_obs(ob, memo0), 'reading-the-state-keeps-the-memoised-observation')
        # whatever happened, the observation now read is the one computed last, from (a state equal to) the current state
        ob_now = env.observation
        sx.check(counter['obs_states'], 'an-observation-was-computed')
        states_equal(sx, counter['obs_states'][-1], env.state, 'current-observation-belongs-to-the-current-state')
    return h


class AdversarialId:
    """stands for the builtin id(): its only documented contract is uniqueness among simultaneously existing objects, so the
    identity of a dead object may be handed to a new one -- here always, as soon as one is free (weak references track liveness)"""

    def __init__(self):
        import builtins
        import weakref
        self._real, self._weakref = builtins.id, weakref
        self.by_obj = {}   # real id -> (weakref, value)
        self.free = []
        self.next = 1 << 40

    def __call__(self, obj):
        for rid, (wr, val) in list(self.by_obj.items()):
            if wr() is None:
                del self.by_obj[rid]
                self.free.append(val)
        rid = self._real(obj)
        if rid in self.by_obj and self.by_obj[rid][0]() is obj:
            return self.by_obj[rid][1]
        try:
            wr = self._weakref.ref(obj)
        except TypeError:
            return rid
        if self.free:
            val = self.free.pop()
        else:
            val, self.next = self.next, self.next + 16
        self.by_obj[rid] = (wr, val)
        return val


def mk_id_reuse(H, W):
    """a memo must not be keyed by something that a later state can share with a dead one (e.g. id()): read, step twice
    without reading and without anyone keeping the old states alive, read again"""
    import weakref

    import gym_gridverse.envs.gridworld as GW
    import gym_gridverse.envs.inner_env as IE
    import gym_gridverse.outer_env as OE

    def h(sx):
        reset_gv_debug(False)
        calls = {'n': 0, 'last': None}
        counter = new_counter()

        def seen(state):  # counts, and remembers the state only weakly
            calls['n'] += 1
            calls['last'] = weakref.ref(state)

        env = make_env(H, W, False, counter, obs_wrap=seen)
        rng = SymRng(sx)
        adv = AdversarialId()
        mods = (IE, GW, OE)
        for m in mods:
            m.id = adv
        try:
            from ..stubs import ORS
            two = [e for e in SMALL8 if e[0] in ('Floor', 'Wall')]
            S, world = lazy_state(sx, H, W, two, held_sigma=[], orientations=ORS[:2])
            install(env, counter, S, rng)
            del S
            env.observation
            n_ops = int(sx.int('ops', 2, 3))
            for i in range(n_ops):
                op = sx.choice(f'op{i}', ['step', 'reset'])
                if op == 'step':
                    env.step(sx.choice(f'a{i}', [Action.TURN_LEFT, Action.MOVE_FORWARD, Action.ACTUATE]))
                else:
                    fresh, _ = lazy_state(sx, H, W, two[:1], name=f'r{i}', held_sigma=[], agent=f'r{i}', held=f'rheld{i}', orientations=ORS[:1])
                    counter['reset_state'] = fresh
                    del fresh
                    env.reset()
                    counter['reset_state'] = None
            before = calls['n']
            ob = env.observation
            sx.cover('read-after-unobserved-operations')
            sx.check(calls['n'] == before + 1, 'observation-recomputed-after-unobserved-operations',
                     f'observation function called {calls["n"] - before} times at the read')
            last = calls['last']()
            sx.check(last is not None, 'observation-computed-from-a-live-state')
            states_equal(sx, last, env.state, 'observation-recomputed-from-the-current-state')
            sx.check(same_obs(env.observation, ob) and calls['n'] == before + 1, 'then-memoised')
        finally:
            for m in mods:
                if 'id' in m.__dict__:
                    del m.id
    return h


def h_before_reset(sx):
    counter = new_counter()
    env = make_env(2, 2, False, counter)
    which = sx.choice('which', ['state', 'observation', 'step'])
    sx.cover('before-reset')
    try:
        if which == 'state':
            env.state
        elif which == 'observation':
            env.observation
        else:
            env.step(Action.TURN_LEFT)
    except Exception:
        sx.check(counter['obs_calls'] == 0, 'nothing-computed-before-reset')
    else:
        if which == 'state':  # the statement is about the state; the other two only must not invent an observation
            sx.fail('state-before-first-reset-does-not-raise')
        sx.check(counter['obs_calls'] == 0, 'no-observation-computed-from-a-missing-state')


class RecRep:
    def __init__(self, tag):
        self.tag, self.seen = tag, []

    def convert(self, x):
        self.seen.append(x)
        return {self.tag: x}


def h_outer(sx):
    reset_gv_debug(False)
    counter = new_counter()
    env = make_env(2, 2, False, counter)
    rng = SymRng(sx)
    S, world = lazy_state(sx, 2, 2, SMALL8, held_sigma=[])
    install(env, counter, S, rng)
    srep, orep = RecRep('s'), RecRep('o')
    with_reps = sx.choice('with_reps', [True, False])
    outer = OuterEnv(env, state_representation=srep if with_reps else None, observation_representation=orep if with_reps else None)
    op = sx.choice('op', ['state', 'observation', 'step', 'reset', 'action_space'])
    sx.cover('outer-' + op)
    if with_reps:  # reads that happened before the operation must leave no trace in the outer environment
        prior = sx.choice('prior', ['none', 'state', 'observation', 'both'])
        if prior in ('state', 'both'):
            outer.state
        if prior in ('observation', 'both'):
            outer.observation
        del srep.seen[:], orep.seen[:]
    if op in ('state', 'observation') and not with_reps:
        try:
            getattr(outer, op)
        except Exception:
            sx.check(True, 'missing-representation-raises')
        else:
            sx.fail('missing-representation-does-not-raise')
        return
    if op == 'state':
        out = outer.state
        sx.check(len(srep.seen) == 1 and out == {'s': srep.seen[0]}, 'outer-state-is-one-conversion')
        states_equal(sx, srep.seen[0], env.state, 'outer-state-is-the-representation-of-the-inner-state')
    elif op == 'observation':
        out = outer.observation
        sx.check(orep.seen and same_obs(orep.seen[-1], env.observation) and same_obs(out['o'], env.observation), 'outer-observation-is-the-representation-of-the-inner-observation')
        n = counter['obs_calls']
        outer.observation
        sx.check(counter['obs_calls'] == n, 'outer-observation-read-twice-computes-once')
    elif op == 'step':
        a = sx.choice('a', ACTIONS)
        twin_in = fast_copy(S)
        out = outer.step(a)
        twin = make_env(2, 2, False, new_counter())
        nxt, r2, d2 = twin.functional_step(twin_in, a)
        sx.check(isinstance(out, tuple) and out[0] == r2 and bool(out[1]) == bool(d2), 'outer-step-returns-inner-reward-and-flag')
        states_equal(sx, env.state, nxt, 'outer-step-advances-the-inner-state-once')
        if with_reps:
            c0 = counter['obs_calls']
            so, oo = outer.state['s'], outer.observation['o']
            sx.check(counter['obs_calls'] == c0 + 1, 'outer-step-invalidates-the-observation')
            states_equal(sx, so, nxt, 'outer-state-current-after-step')
            states_equal(sx, counter['obs_states'][-1], nxt, 'outer-observation-current-after-step')
            sx.check(same_obs(oo, env.observation), 'outer-views-current-after-step')
    elif op == 'reset':
        fresh, _ = lazy_state(sx, 2, 2, SMALL8, name='r', held_sigma=[], agent='r', held='rheld')
        counter['reset_state'] = fresh
        outer.reset()
        sx.check(counter['reset_calls'] == 1, 'outer-reset-resets-the-inner-env')
        states_equal(sx, env.state, fresh, 'outer-reset-installs-the-reset-state')
        if with_reps:
            c0 = counter['obs_calls']
            so, oo = outer.state['s'], outer.observation['o']
            sx.check(counter['obs_calls'] == c0 + 1, 'outer-reset-invalidates-the-observation')
            states_equal(sx, so, fresh, 'outer-state-current-after-reset')
            states_equal(sx, counter['obs_states'][-1], fresh, 'outer-views-current-after-reset')
    else:
        sx.check(outer.action_space is env.action_space or outer.action_space == env.action_space, 'outer-action-space-is-inner-action-space')


def obligations(tier):
    q = tier == 'quick'
    obs = [Obligation('before-first-reset', h_before_reset), Obligation('outer-env-delegation', h_outer)]
    for (H, W) in [(1, 2), (2, 2)]:
        obs.append(Obligation(f'unobserved-operations-then-read-{H}x{W}', mk_id_reuse(H, W), dict(H=H, W=W, id='adversarial builtin id (dead identities are reused at once)')))
    det = [(1, 2), (2, 2)] if q else [(1, 2), (2, 2), (2, 3), (3, 3)]
    sto = [(1, 3)] if q else [(1, 3), (2, 2)]
    for op in OPS:
        for (H, W) in det:
            obs.append(Obligation(f'{op}-deterministic-{H}x{W}', mk(H, W, False, op), dict(op=op, H=H, W=W, dynamics='move+turn+actuate_door+pickndrop')))
        for (H, W) in sto:
            obs.append(Obligation(f'{op}-stochastic-{H}x{W}', mk(H, W, True, op), dict(op=op, H=H, W=W, dynamics='move+turn+move_obstacles')))
    return obs
