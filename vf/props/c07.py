"""C07 Observations are egocentric: invariant under rotating the whole world."""
from gym_gridverse.grid_object import Hidden

from ..runner import Obligation
from .obs_common import (AREAS_QUICK, AREAS_THOROUGH, DETERMINISTIC, Tok, area_ok, fixed_area,
                         make_world, needs, observe, rotate_pose, rotate_world,
                         same_cells, sym_area, sym_pose)

PROPERTY = 'C07'
LEVEL = 'other'
SCOPE = ('the three deterministic observation functions on worlds of distinct token cells with symbolic opacity: the observation of the '
         'world turned by a quarter turn q (grid and pose together; the turned world is built in the harness from explicit index formulas, '
         'not with Grid.__mul__) is cell-by-cell identical (same token or both Hidden) to the observation of the original')
BOUNDS = {
    'quick': dict(worlds='1x2, 2x2 with every view area of the box ymin,ymax in [-2,1], xmin,xmax in [-2,2]; 1x3, 3x2, 3x4 (non-square) with 9 selected areas',
                  turns='all 4 quarter turns', poses='every cell x 4 headings', opacity='symbolic per world cell'),
    'thorough': dict(worlds='up to 2x3 with every area of the box; 1x4, 3x2, 3x4, 4x4 with 13 selected areas', turns='all 4', poses='all', opacity='symbolic'),
}
OUTSIDE = 'the shipped 7x7 view is covered on an 8x9 world with three symbolic occluders only; the stochastic observation function (not deterministic)'
ASSUMPTIONS = ['documented preconditions of partially_occluded and raytracing on the view area']
STUBS = ['Tok cells with symbolic blocks_vision']
TIME_LIMIT = {'quick': 300, 'thorough': 1800}


def mk(fname, H, W, box=None, fixed=None, symbolic_cells=None):
    def h(sx):
        toks = make_world(sx, H, W)
        if symbolic_cells is not None:
            for y in range(H):
                for x in range(W):
                    if (y, x) not in symbolic_cells:
                        toks[y][x].force(False)
        pose = sym_pose(sx, H, W)
        area = sym_area(sx, box, **needs(fname)) if fixed is None else fixed_area(sx, fixed, fname)
        q = int(sx.int('q', 1, 3))
        held = Tok('held')
        ob1 = observe(fname, toks, pose, area, held)
        pose_c = (int(pose[0]), int(pose[1]), pose[2])
        toks2 = rotate_world(toks, q)
        pose2 = rotate_pose(H, W, pose_c, q)
        ob2 = observe(fname, toks2, pose2, area, held)
        sx.cover('rotated')
        sx.check(same_cells(ob1, ob2), 'observation-invariant-under-world-rotation',
                 f'pose {pose_c} q={q} area={area}: {ob1.grid.objects} vs {ob2.grid.objects}')
        sx.check(ob1.agent.position == ob2.agent.position and ob1.agent.orientation is ob2.agent.orientation
                 and ob1.agent.grid_object == ob2.agent.grid_object, 'observed-agent-invariant')
        if any(not isinstance(c, Hidden) for r in ob1.grid.objects for c in r) and any(isinstance(c, Hidden) for r in ob1.grid.objects for c in r):
            sx.cover('partly-hidden')
    return h


def obligations(tier):
    qk = tier == 'quick'
    box = (-2, 1, -2, 2)
    obs = []
    for fname in DETERMINISTIC:
        for (H, W) in ([(1, 2), (2, 2)] if qk else [(1, 2), (2, 1), (2, 2), (2, 3)]):
            obs.append(Obligation(f'{fname}-{H}x{W}-every-area', mk(fname, H, W, box=box), dict(function=fname, H=H, W=W, view_box=list(box))))
        for (H, W) in ([(1, 3), (3, 2), (3, 4)] if qk else [(1, 4), (3, 2), (3, 4), (4, 4)]):
            for a in (AREAS_QUICK if qk else AREAS_THOROUGH):
                if fname == 'raytracing' and H * W >= 16 and (a[1] - a[0] + 1) * (a[3] - a[2] + 1) > 16:
                    continue  # 25-cell ray-traced views on a 16-cell world: too many opacity patterns
                if area_ok(a, fname):
                    obs.append(Obligation(f'{fname}-{H}x{W}-area{a}', mk(fname, H, W, fixed=a), dict(function=fname, H=H, W=W, area=list(a))))
    for fname in DETERMINISTIC:
        obs.append(Obligation(f'{fname}-8x9-shipped-view', mk(fname, 8, 9, fixed=(-6, 0, -3, 3), symbolic_cells={(3, 4), (4, 4), (4, 3)}),
                              dict(function=fname, H=8, W=9, area=[-6, 0, -3, 3], symbolic_opacity='3 cells')))
    return obs
