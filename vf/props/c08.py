"""C08 Agent kinematics: moves and turns do exactly what the action says."""
from gym_gridverse.action import Action
from gym_gridverse.grid_object import Door, Telepod

from ..runner import Obligation
from ..stubs import SIGMA_2C, SIGMA_FULL, SymRng, lazy_state
from ..symx import sym_and
from .common import (ACTIONS, CHAINS, FROM_TURNS, MOVE_UNIT, SINGLE, TURNS,
                     blocks_movement, components, post_cells, rot, shapes,
                     transition)

PROPERTY = 'C08'
LEVEL = 'other'
SCOPE = ('short histories (2-3 steps of the full chain on the objects the earlier steps produced) and the one-step kinematic law and preservation of "agent in grid on a non-blocking cell" for every built-in '
         'transition function and the shipped chains, over lazily symbolic grids: the verdict covers every content '
         'of the cells the code did not read')
BOUNDS = {
    'quick': dict(long_grids='2x40 all-Floor grid, two unrelated move attempts one after the other, every pair of positions, 4 headings x 2 actions (thorough: 40x2, 3x70, 4 actions)', shapes='all HxW with 1<=H,W<=3 (scanning functions move_obstacles/teleport: H*W<=4, 3-object alphabets, empty hand)', alphabet='all object kinds and door statuses, 2 colours (33 objects)',
                  poses='every cell x 4 headings (edges facing outward included)', actions='all 8', held='none or any object of the alphabet',
                  draws='every outcome of every rng draw (move_obstacles, teleport)'),
    'thorough': dict(shapes='all HxW with 1<=H,W<=4 plus 5x5', alphabet='full alphabet, 5 colours (41 objects)',
                     poses='every cell x 4 headings', actions='all 8', held='none or any object', draws='every outcome'),
}
OUTSIDE = 'larger grids (the functions are local; unread cells are covered symbolically); user-registered transition functions'
ASSUMPTIONS = ['blocking semantics restated in the harness: Wall, Box, non-open Door block; everything else does not',
               'the history claim follows by induction from reset (C13) + one-step preservation checked here']
STUBS = ['LazyRows (lazy symbolic Grid.objects)', 'SymRng (numpy Generator contract)']
TIME_LIMIT = {'quick': 240, 'thorough': 1500}


def mk(fname, H, W, sigma, held_sigma=None):
    f = transition(fname)
    comps = components(fname)

    def h(sx):
        state, world = lazy_state(sx, H, W, sigma, held_sigma=held_sigma)
        a = sx.choice('a', ACTIONS)
        py, px, o = state.agent.position.y, state.agent.position.x, state.agent.orientation
        rng = SymRng(sx)
        f(state, a, rng=rng)
        ny, nx, no = state.agent.position.y, state.agent.position.x, state.agent.orientation
        cells = post_cells(state)

        # ---- expected heading
        eo = o
        if 'turn_agent' in comps and a in (Action.TURN_LEFT, Action.TURN_RIGHT):
            eo = FROM_TURNS[(TURNS[o] + (3 if a is Action.TURN_LEFT else 1)) % 4]
            sx.cover('turn')
        sx.check(no is eo, 'heading')

        # ---- expected position
        ey, ex = py, px
        if 'move_agent' in comps and a in MOVE_UNIT:
            dy, dx = rot(TURNS[o], *MOVE_UNIT[a])
            ty, tx = py + dy, px + dx
            if sym_and(0 <= ty, ty < H, 0 <= tx, tx < W):
                target = world.make(int(ty), int(tx))
                if not blocks_movement(target):
                    ey, ex = ty, tx
                    sx.cover('move-free')
                else:
                    sx.cover('move-blocked')
            else:
                sx.cover('move-outside')
        if 'teleport' in comps:
            # teleportation is the only other way to change position: only from a telepod (details in C11)
            if sym_and(ny == ey, nx == ex):
                pass
            else:
                here = world.make(int(ey), int(ex))
                sx.check(isinstance(here, Telepod), 'displaced-only-from-telepod')
                sx.cover('teleported')
        else:
            sx.check(sym_and(ny == ey, nx == ex), 'position')

        # ---- invariant: in grid, on a non-blocking cell (given it was so before)
        sx.check(sym_and(0 <= ny, ny < H, 0 <= nx, nx < W), 'in-grid')
        moved = not sym_and(ny == py, nx == px)
        if moved or cells:
            key = (int(ny), int(nx))
            if key in cells:
                if moved:
                    sx.check(not blocks_movement(cells[key]), 'on-nonblocking-after-move')
                elif not blocks_movement(world.make(*key)):
                    sx.check(not blocks_movement(cells[key]), 'stays-on-nonblocking')
            elif moved:
                sx.check(not blocks_movement(world.make(*key)), 'on-nonblocking-after-move')
    return h


HIST = [e for e in SIGMA_2C if e[0] in ('Floor', 'Wall', 'Door(CLOSED,YELLOW)', 'Door(LOCKED,YELLOW)', 'Key(YELLOW)', 'Box(Floor)')]


def mk_history(H, W, nsteps):
    """the kinematic law along short HISTORIES of the full chain: the second (third) step starts from the very objects the earlier
    steps produced, so state kept inside objects besides (type, status, colour) cannot hide; the oracle looks at statuses only"""
    f = transition('chain[move,turn,actuate_door,actuate_box,pickndrop]')

    def h(sx):
        state, world = lazy_state(sx, H, W, HIST, held_sigma=[e for e in HIST if e[0].startswith('Key')])
        for step in range(nsteps):
            a = sx.choice(f'a{step}', ACTIONS)
            py, px, o = state.agent.position.y, state.agent.position.x, state.agent.orientation
            cells = post_cells(state)
            ey, ex = py, px
            if a in MOVE_UNIT:
                dy, dx = rot(TURNS[o], *MOVE_UNIT[a])
                ty, tx = py + dy, px + dx
                if sym_and(0 <= ty, ty < H, 0 <= tx, tx < W):
                    k = (int(ty), int(tx))
                    target = cells[k] if k in cells else world.make(*k)  # the object as the history left it
                    if not blocks_movement(target):  # restated from type and status, not from the object's own flag
                        ey, ex = ty, tx
                        if isinstance(target, Door):
                            sx.cover('moved-onto-a-door-opened-earlier' if step else 'moved-onto-an-open-door')
            eo = o
            if a in (Action.TURN_LEFT, Action.TURN_RIGHT):
                eo = FROM_TURNS[(TURNS[o] + (3 if a is Action.TURN_LEFT else 1)) % 4]
            f(state, a)
            sx.check(state.agent.orientation is eo, f'heading-step{step}')
            sx.check(sym_and(state.agent.position.y == ey, state.agent.position.x == ex), f'position-step{step}',
                     f'step {step} action {a.name}')
        sx.cover('history')
    return h


def mk_wide(H, W, o, a):
    """two unrelated move attempts in the same direction on a LONG grid, one after the other in the same process (whatever the first
    left behind in the library must not matter to the second): the kinematic law for both"""
    f = transition('move_agent')
    FW = [e for e in SIGMA_2C if e[0] == 'Floor']

    def h(sx):
        for rnd in range(2):
            state, world = lazy_state(sx, H, W, FW, held_sigma=[], name=f'g{rnd}', agent=f'a{rnd}', held=f'held{rnd}', orientations=[o])
            py, px = state.agent.position.y, state.agent.position.x
            dy, dx = rot(TURNS[o], *MOVE_UNIT[a])
            ty, tx = py + dy, px + dx
            ey, ex = py, px
            if sym_and(0 <= ty, ty < H, 0 <= tx, tx < W):
                if not blocks_movement(world.make(int(ty), int(tx))):
                    ey, ex = ty, tx
            f(state, a)
            sx.check(state.agent.orientation is o, f'heading-attempt{rnd}')
            sx.check(sym_and(state.agent.position.y == ey, state.agent.position.x == ex), f'position-attempt{rnd}',
                     f'attempt {rnd}: from {(py, px)} expected {(ey, ex)} got {(state.agent.position.y, state.agent.position.x)}')
        sx.cover('two-attempts-on-a-long-grid')
    return h


def h_turn_algebra(sx):
    """left then right, right then left, and four equal turns restore the heading; never displace"""
    from ..stubs import ORS
    from gym_gridverse.envs.transition_functions import turn_agent
    state, world = lazy_state(sx, 3, 3, SIGMA_2C)
    o = state.agent.orientation
    py, px = state.agent.position.y, state.agent.position.x
    seq = sx.choice('seq', [[Action.TURN_LEFT, Action.TURN_RIGHT], [Action.TURN_RIGHT, Action.TURN_LEFT],
                            [Action.TURN_LEFT] * 4, [Action.TURN_RIGHT] * 4])
    for a in seq:
        turn_agent(state, a)
    sx.cover('turn-sequences')
    sx.check(state.agent.orientation is o, 'turn-sequence-restores')
    sx.check(sym_and(state.agent.position.y == py, state.agent.position.x == px), 'turn-never-displaces')


def obligations(tier):
    sigma = SIGMA_2C if tier == 'quick' else SIGMA_FULL
    shp = shapes(3, 3) if tier == 'quick' else shapes(4, 4) + [(5, 5)]
    obs = [Obligation('turn-algebra', h_turn_algebra)]
    from ..stubs import ORS
    for (H, W) in ([(2, 40)] if tier == 'quick' else [(2, 40), (40, 2), (3, 70)]):
        for o in ORS:
            for a in (MOVE_UNIT if tier != 'quick' else [Action.MOVE_FORWARD, Action.MOVE_RIGHT]):
                obs.append(Obligation(f'long-grid-{H}x{W}-two-attempts-{o.name}-{a.name}', mk_wide(H, W, o, a), dict(H=H, W=W, heading=o.name, action=a.name, alphabet='Floor')))
    for (H, W, n) in ([(1, 2, 3), (1, 3, 2), (2, 2, 2)] if tier == 'quick' else [(1, 2, 3), (1, 3, 3), (2, 2, 3), (2, 3, 2)]):
        obs.append(Obligation(f'history-{n}steps-{H}x{W}', mk_history(H, W, n), dict(H=H, W=W, steps=n, alphabet=[e[0] for e in HIST], dynamics='full chain')))
    for fname in list(SINGLE) + list(CHAINS):
        scan = fname in ('move_obstacles', 'teleport')
        for (H, W) in shp:
            if scan and H * W > (3 if tier == 'quick' else 4):
                continue  # scanning functions read every cell: full layouts are covered in C11 with its own bounds
            s = sigma
            hs = None
            if scan:
                keep = ('Floor', 'Wall', 'MovingObstacle') if fname == 'move_obstacles' else ('Floor', 'Telepod(NONE)', 'Telepod(YELLOW)')
                s = [e for e in sigma if e[0] in keep]
                hs = []  # empty hand
            obs.append(Obligation(f'{fname}-{H}x{W}', mk(fname, H, W, s, hs), dict(function=fname, H=H, W=W, alphabet=[e[0] for e in s] if scan else len(s))))
    return obs
