"""C15 Numeric representations always lie inside their declared spaces."""
import numpy as np

from gym_gridverse.debugging import reset_gv_debug
from gym_gridverse.geometry import Shape
from gym_gridverse.grid_object import Color
from gym_gridverse.gym import outer_space_to_gym_space
from gym_gridverse.representations.observation_representations import make_observation_representation
from gym_gridverse.representations.state_representations import make_state_representation

from ..runner import Obligation
from ..symx import SymInt, sym_and
from .rep_common import (COLOR_SETS, GO_OBS, GO_STATE, REPS, TYPE_SETS, fixed_observation,
                         fixed_state, make_space, real_objects, sym_duck)

PROPERTY = 'C15'
LEVEL = 'other'
SCOPE = ('(a) per-object converters of the three encodings run on an object whose type is forked over the space and whose status and colour '
         'indices are SYMBOLIC within the space: lower <= value <= upper of the declared per-object space is decided by z3 for all of them at once; '
         '(b) whole-state / whole-observation conversion (concretised at the numpy boundary) for states with one distinguished cell over the '
         "space's alphabet, every pose and held item: every key has the declared shape and dtype kind, satisfies Space.contains, and lies in "
         'the gym Box/Dict space built by outer_space_to_gym_space; (c) the normalised agent pose lies in [-1, 1] for every position of every shape 2x2..6x6')
BOUNDS = {
    'quick': dict(gym_layer='2x2 world: arrays inside the newly advertised space after switching representation mid-episode, with earlier reads', spaces='7 type sets (the 5 shipped ones, doors-only, all representable types; observation side also with Box) x 5 colour sets x 3 representations x {state, observation}',
                  per_object='status and colour symbolic, type forked', whole='grid shapes 2x2, 2x3; view shapes 1x1, 2x3, 3x3; distinguished cell at every position; spaces with more than 8 objects vary cell content, pose and held item one at a time'),
    'thorough': dict(spaces='same', per_object='same', whole='plus 3x3 / 3x5'),
}
OUTSIDE = '"all subsets of types" beyond the listed family; whole grids with several non-background cells rest on the cell-wise lemma of C16; trajectories follow from C01 + C13 (reachable states are members)'
ASSUMPTIONS = ['members of a space: declared types (+NoneGridObject in the hand, +Hidden in observations), declared colours, statuses below num_states']
STUBS = ['Duck grid object (type_index / state_index / color.value only)']
TIME_LIMIT = {'quick': 300, 'thorough': 1200}


def mk_object(kind, rep, tname, cname):
    def h(sx):
        space = make_space(kind, tname, cname, Shape(3, 3))
        gor = (GO_STATE if kind == 'state' else GO_OBS)[rep](space)
        sp = gor.space
        d = sym_duck(sx, space, kind, 'o')
        out = gor.convert(d)
        sx.cover('object')
        sx.check(tuple(out.shape) == tuple(sp.shape) and len(sp.shape) == 1, 'per-object-shape')
        for i in range(sp.shape[0]):
            v = out[i]
            sx.check(isinstance(v, (int, np.integer, SymInt)), 'integer-valued', repr(v))
            sx.check(sym_and(int(sp.lower_bound[i]) <= v, v <= int(sp.upper_bound[i])), f'channel-{i}-within-declared-bounds',
                     f'type {d.T.__name__}: value {v!r} bounds [{sp.lower_bound[i]}, {sp.upper_bound[i]}]')
    return h


def check_dict(sx, rep, out, lab):
    space = rep.space
    sx.check(set(out) == set(space), lab + '-keys')
    gym_space = outer_space_to_gym_space(space)
    for k, arr in out.items():
        sp = space[k]
        sx.check(isinstance(arr, np.ndarray) and arr.shape == sp.shape, lab + f'-{k}-shape', f'{getattr(arr, "shape", None)} vs {sp.shape}')
        sx.check(bool(sp.contains(arr)), lab + f'-{k}-in-declared-space', f'{arr.tolist()} not in [{sp.lower_bound.tolist()}, {sp.upper_bound.tolist()}] ({sp.space_type})')
        sx.check(bool(gym_space[k].contains(arr.astype(gym_space[k].dtype))) and np.can_cast(arr.dtype, gym_space[k].dtype, casting='same_kind'),
                 lab + f'-{k}-in-gym-space')
    sx.check(bool(gym_space.contains({k: v.astype(gym_space[k].dtype) for k, v in out.items()})), lab + '-in-gym-dict-space')


def mk_whole(kind, rep, tname, cname, shape, large=False):
    def h(sx):
        H_, W_ = shape.height, shape.width
        cp = [(0, 0), (H_ - 1, W_ - 1), (H_ // 2, W_ // 3), (0, W_ - 1)] if large else None
        reset_gv_debug(True)
        try:
            space = make_space(kind, tname, cname, shape)
            objs = real_objects(space, kind)
            if kind == 'state':
                r = make_state_representation(rep, space)
                x, _ = fixed_state(sx, space, objs, shape.height, shape.width, cp)
            else:
                r = make_observation_representation(rep, space)
                x, _ = fixed_observation(sx, space, objs, cp)
            out = r.convert(x)
            sx.cover('whole')
            check_dict(sx, r, out, kind)
        finally:
            reset_gv_debug(False)
    return h


def h_agent_pose(sx):
    from gym_gridverse.representations.state_representations import AgentStateRepresentation
    from gym_gridverse.spaces import StateSpace
    from gym_gridverse.grid_object import Floor
    from gym_gridverse.agent import Agent
    from gym_gridverse.geometry import Position
    from gym_gridverse.grid import Grid
    from gym_gridverse.state import State
    from ..stubs import ORS
    H = int(sx.int('H', 2, 6))
    W = int(sx.int('W', 2, 6))
    y = int(sx.int('y', 0, H - 1))
    x = int(sx.int('x', 0, W - 1))
    o = sx.choice('o', ORS)
    r = AgentStateRepresentation(StateSpace(Shape(H, W), [Floor], [Color.NONE]))
    arr = r.convert(State(Grid.from_shape((H, W)), Agent(Position(y, x), o)))
    sx.cover('pose')
    sx.check(bool(r.space.contains(arr)), 'agent-pose-within-[-1,1]', repr(arr.tolist()))
    sx.check(tuple(arr.shape) == tuple(r.space.shape), 'agent-pose-shape')


def obligations(tier):
    obs = _obligations(tier)
    for o in obs:  # a sample of the symbolically decided assertions is re-decided by the cvc5 binary
        if o.name.startswith(('object-',)):
            o.cross_check = 6 if tier == 'quick' else 60
    # shipped large shapes (the arrays are tiled per cell, the pose is normalised by the shape): one distinguished cell, every pose
    for rep in REPS:
        for (tname, cname, shape) in [('keydoor', 'yellow', Shape(9, 9)), ('memory', 'all', Shape(13, 13)), ('obstacles', 'none', Shape(7, 12))]:
            obs.append(Obligation(f'whole-state-{rep}-{tname}-{cname}-{shape.height}x{shape.width}', mk_whole('state', rep, tname, cname, shape, large=True),
                                  dict(kind='state', representation=rep, types=tname, colours=cname, shape=[shape.height, shape.width], distinguished_cell='4 positions')))
        obs.append(Obligation(f'whole-observation-{rep}-keydoor-yellow-7x7', mk_whole('observation', rep, 'keydoor', 'yellow', Shape(7, 7), large=True),
                              dict(kind='observation', representation=rep, types='keydoor', colours='yellow', shape=[7, 7])))
    # the gym layer after the representation was switched mid-episode (with earlier reads): arrays inside the NEWLY advertised space
    from .c20 import PERM, mk as mk_gym
    obs.append(Obligation('gym-layer-after-switching-representation-2x2', mk_gym(2, 2, PERM, 'switch'), dict(world='2x2', prior_reads='none / observation and state')))
    return obs


def _obligations(tier):
    q = tier == 'quick'
    obs = [Obligation('agent-pose-normalisation', h_agent_pose)]
    for kind in ('state', 'observation'):
        for rep in REPS:
            for tname in TYPE_SETS:
                for cname in COLOR_SETS:
                    obs.append(Obligation(f'object-{kind}-{rep}-{tname}-{cname}', mk_object(kind, rep, tname, cname),
                                          dict(kind=kind, representation=rep, types=tname, colours=cname)))
    whole_spaces = [('basic', 'none'), ('obstacles', 'none'), ('keydoor', 'yellow'), ('teleport', 'red'), ('memory', 'all'), ('all-representable', 'all'),
                    ('doors-only', 'green-blue')]
    for kind in ('state', 'observation'):
        shapes = ([Shape(2, 2), Shape(2, 3)] if kind == 'state' else [Shape(1, 1), Shape(2, 3), Shape(3, 3)])
        if not q:
            shapes = shapes + ([Shape(3, 3)] if kind == 'state' else [Shape(3, 5)])
        for rep in REPS:
            for (tname, cname) in whole_spaces:
                for shape in shapes:
                    obs.append(Obligation(f'whole-{kind}-{rep}-{tname}-{cname}-{shape.height}x{shape.width}', mk_whole(kind, rep, tname, cname, shape),
                                          dict(kind=kind, representation=rep, types=tname, colours=cname, shape=[shape.height, shape.width])))
    return obs
