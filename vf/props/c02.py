"""C02 Seeded environments are reproducible and isolated from every global RNG (partial scope, see DESIGN.md)."""
import os
import random as pyrandom
import subprocess
import sys
from functools import partial

import numpy as np

import gym_gridverse.rng as gvrng
from gym_gridverse.action import Action
from gym_gridverse.debugging import reset_gv_debug
from gym_gridverse.envs import observation_functions as OF
from gym_gridverse.envs import reset_functions as R
from gym_gridverse.envs import reward_functions as RF
from gym_gridverse.envs import terminating_functions as TF
from gym_gridverse.envs import transition_functions as T
from gym_gridverse.envs import visibility_functions as VF
from gym_gridverse.envs.gridworld import GridWorld
from gym_gridverse.geometry import Area, Orientation, Position, Shape
from gym_gridverse.grid_object import (Color, Exit, Floor, Key, MovingObstacle,
                                       Telepod, Wall)
from gym_gridverse.spaces import ActionSpace, ObservationSpace, StateSpace
from gym_gridverse.utils.fast_copy import fast_copy

from .. import REPO
from ..runner import Obligation
from ..stubs import (SIGMA_2C, ForbiddenRng, GlobalRngTouched, SymRng, lazy_state,
                     same_object)
from ..symx import sym_and
from .c04 import ReplayRng, states_equal
from .common import ACTIONS

PROPERTY = 'C02'
LEVEL = 'other'
SCOPE = ('(1) rng threading: with the library-level generator replaced by an object that fails on any use and the numpy / python global '
         'generators fingerprinted, every path of every stochastic built-in (resets, move_obstacles, teleport, chains, stochastic visibility / '
         'observation) called with an explicit generator uses only that generator, composites hand the SAME generator object to their parts, and '
         'GridWorld hands its own generator to reset, transition and observation; (2) order independence: reset functions taking a set of '
         'colours give equal states for the same draws under two arbitrary iteration orders of the set (2-safety, decided over symbolic '
         'permutations); (3) determinism given the draws, with the debug flag on in one run and off in the other. '
         'Concrete side checks (not what the level rests on): two seeded environments per shipped configuration, interleaved with a third, '
         'and two interpreter processes with different PYTHONHASHSEED produce identical trajectories')
BOUNDS = {
    'quick': dict(interleaving='the shortest-path reward asked again after 0..2 questions of other environments (other exit, other layout, 12 layouts, ray fans)', threading='resets on shapes up to 5x5 (memory 5x5, rooms 5x5), transitions on 1x3/2x2 lazily symbolic states, observation functions on 2x2 worlds',
                  order_independence='memory 5x5 and memory_rooms 4x5 with colour sets of size 2..4 and every pair of iteration orders',
                  determinism='full stochastic chain on 1x3, stochastic observation on 2x2, resets as above',
                  side_checks='21 shipped configurations x 2 seeds x 30 steps; 4 shipped configs x 2 PYTHONHASHSEED values'),
    'thorough': dict(threading='plus 6x6 resets', order_independence='plus memory 5x7, memory_rooms 5x5', determinism='same', side_checks='5 seeds x 60 steps; all memory configs x 3 hash seeds'),
}
OUTSIDE = ('bit-level behaviour of numpy.random.default_rng(seed); arbitrary interleavings of several live environments beyond the sampled '
           'schedule of the side check (object sharing between instances is a heap property; the only shared mutable state, the two lru_caches, is C03)')
ASSUMPTIONS = ['SymRng models the numpy Generator contract', 'a set of enum members iterates in an arbitrary order (modelled by OrderedSetStub with a symbolic permutation)']
STUBS = ['SymRng', 'ReplayRng (same draws again)', 'ForbiddenRng (global generator)', 'OrderedSetStub', 'mini YAML reader (side checks only)']
TIME_LIMIT = {'quick': 300, 'thorough': 1800}


class guard_globals:
    """library-level generator replaced by a failing object; numpy / python global generators fingerprinted"""

    def __init__(self, sx):
        self.sx = sx

    def __enter__(self):
        self.old = gvrng._gv_rng
        gvrng._gv_rng = ForbiddenRng()
        self.np_state = self._np()
        self.py_state = pyrandom.getstate()
        return self

    @staticmethod
    def _np():
        # the whole state of numpy's legacy global generator: key words AND the position inside them (one draw only moves the position)
        st = np.random.get_state()
        return (st[0], st[1].tobytes(), st[2], st[3], st[4])

    def __exit__(self, et, ev, tb):
        touched = not isinstance(gvrng._gv_rng, ForbiddenRng)
        gvrng._gv_rng = self.old
        if et is None:
            self.sx.check(not touched, 'library-generator-not-replaced')
            self.sx.check(self._np() == self.np_state, 'numpy-global-generator-untouched')
            self.sx.check(pyrandom.getstate() == self.py_state, 'python-global-generator-untouched')
        return False


RESETS = {
    'empty': lambda H, W, sx, rng: R.empty(Shape(H, W), sx.choice('ra', [False, True]), sx.choice('re', [False, True]), rng=rng),
    'rooms': lambda H, W, sx, rng: R.rooms(Shape(H, W), (1, 2), rng=rng),
    'dynamic_obstacles': lambda H, W, sx, rng: R.dynamic_obstacles(Shape(H, W), 2, sx.choice('ra', [False, True]), rng=rng),
    'keydoor': lambda H, W, sx, rng: R.keydoor(Shape(H, W), rng=rng),
    'crossing': lambda H, W, sx, rng: R.crossing(Shape(H, W), 1, Wall, rng=rng),
    'teleport': lambda H, W, sx, rng: R.teleport(Shape(H, W), rng=rng),
    'memory': lambda H, W, sx, rng: R.memory(Shape(H, W), [Color.RED, Color.BLUE, Color.GREEN], rng=rng),
    'memory_rooms': lambda H, W, sx, rng: R.memory_rooms(Shape(H, W), (1, 1), [Color.RED, Color.BLUE], 1, 2, rng=rng),
}
RESET_SHAPES = {'empty': (4, 5), 'rooms': (4, 5), 'dynamic_obstacles': (4, 5), 'keydoor': (4, 5), 'crossing': (5, 5), 'teleport': (4, 5),
                'memory': (5, 5), 'memory_rooms': (4, 4)}


def full_state(st):
    H, W = st.grid.shape.height, st.grid.shape.width
    return ([[repr(st.grid.objects[y][x]) + str(getattr(st.grid.objects[y][x], 'color', None)) for x in range(W)] for y in range(H)],
            int(st.agent.position.y), int(st.agent.position.x), st.agent.orientation, repr(st.agent.grid_object))


def mk_reset_threading(name):
    H, W = RESET_SHAPES[name]

    def h(sx):
        rng = SymRng(sx)
        with guard_globals(sx):
            st = RESETS[name](H, W, sx, rng)
        sx.cover('reset-' + name, nontrivial=rng.n > 0)
        # determinism given the draws: a second run with the same draws (debug flag flipped) gives an equal state
        reset_gv_debug(True)
        try:
            with guard_globals(sx):
                st2 = RESETS[name](H, W, _Same(sx), ReplayRng(sx, rng.log))
        finally:
            reset_gv_debug(False)
        sx.check(full_state(st) == full_state(st2), 'same-draws-same-initial-state')
    return h


class _Same:
    """second evaluation of the same symbolic parameters (sx.choice by name returns the same decision)"""

    def __init__(self, sx):
        self.sx = sx

    def choice(self, name, options):
        return self.sx.choice(name, options)


TRANS = {
    'move_obstacles': ([T.move_obstacles], ('Floor', 'Wall', 'MovingObstacle')),
    'teleport': ([T.teleport], ('Floor', 'Telepod(NONE)', 'Telepod(YELLOW)')),
    'chain[move,turn,move_obstacles]': ([T.move_agent, T.turn_agent, T.move_obstacles], ('Floor', 'Wall', 'MovingObstacle')),
    'chain[move,turn,teleport]': ([T.move_agent, T.turn_agent, T.teleport], ('Floor', 'Telepod(YELLOW)')),
}


def mk_transition_threading(name, H, W):
    comps, keep = TRANS[name]
    sigma = [e for e in SIGMA_2C if e[0] in keep]

    def h(sx):
        seen = []

        def rec(f):
            def g(state, action, *, rng=None):
                seen.append(rng)
                return f(state, action, rng=rng)
            return g

        f = partial(T.chain, transition_functions=[rec(c) for c in comps])
        state, world = lazy_state(sx, H, W, sigma, held_sigma=[])
        twin_in = fast_copy(state)
        a = sx.choice('a', ACTIONS)
        rng = SymRng(sx)
        with guard_globals(sx):
            nxt = T.transition_with_copy(f, state, a, rng=rng)
        sx.cover('transition', nontrivial=rng.n > 0)
        sx.check(len(seen) == len(comps) and all(r is rng for r in seen), 'chain-hands-the-same-generator-to-every-part')
        # same draws, debug flag flipped: equal next state
        reset_gv_debug(True)
        try:
            rr = ReplayRng(sx, rng.log)
            with guard_globals(sx):
                nxt2 = T.transition_with_copy(partial(T.chain, transition_functions=comps), twin_in, a, rng=rr)
        finally:
            reset_gv_debug(False)
        states_equal(sx, nxt, nxt2, 'same-draws-same-next-state')
        sx.check(rr.n == rng.n, 'same-number-of-draws')
    return h


def mk_observation_threading(fname):
    def h(sx):
        from .obs_common import make_world, observe, same_cells, sym_pose
        toks = make_world(sx, 3, 3)
        pose = sym_pose(sx, 3, 3)
        area = Area((-2, 0), (-1, 1))  # 3x3 view: the stochastic function has probabilities strictly between 0 and 1 here
        seen = []
        real = VF.visibility_function_registry[fname]

        def vis(grid, position, *, rng=None):
            seen.append(rng)
            return real(grid, position, rng=rng)

        rng = SymRng(sx)
        from gym_gridverse.agent import Agent
        from gym_gridverse.grid import Grid
        from gym_gridverse.state import State
        st = State(Grid([list(r) for r in toks]), Agent(Position(pose[0], pose[1]), pose[2]))
        with guard_globals(sx):
            ob = OF.from_visibility(st, area=area, visibility_function=vis, rng=rng)
            ob_direct = getattr(OF, fname)(st, area=area, rng=ReplayRng(sx, rng.log))
        sx.cover('observation', nontrivial=rng.n > 0)
        sx.check(seen == [rng] and seen[0] is rng, 'from_visibility-hands-its-generator-to-the-visibility-function')
        sx.check(same_cells(ob, ob_direct), 'same-draws-same-observation')
    return h


def h_reward_termination_no_rng(sx):
    """reward and termination components are deterministic: they use neither the generator they are handed nor a global one"""
    from .c01 import LOCAL_REWARDS, LOCAL_TERMS
    comps = dict(LOCAL_REWARDS)
    comps.update({'T:' + k: v for k, v in LOCAL_TERMS.items()})
    name = sx.choice('component', sorted(comps))
    sigma = [e for e in SIGMA_2C if e[0] in ('Floor', 'Wall', 'Exit(NONE)', 'Key(YELLOW)', 'MovingObstacle', 'Door(LOCKED,YELLOW)', 'Telepod(YELLOW)', 'Beacon(YELLOW)')]
    state, world = lazy_state(sx, 2, 2, sigma, held_sigma=[e for e in sigma if e[0].startswith('Key')])
    a = sx.choice('a', ACTIONS)
    nxt = T.transition_with_copy(partial(T.chain, transition_functions=[T.move_agent, T.turn_agent, T.actuate_door, T.pickndrop]), state, a)
    with guard_globals(sx):
        r1 = comps[name](state, a, nxt, rng=ForbiddenRng())
        r2 = comps[name](state, a, nxt)
    sx.cover('component-without-rng')
    sx.check(r1 == r2, 'same-value-with-and-without-a-generator')


def h_gridworld_threading(sx):
    """GridWorld passes its own generator (the one made by set_seed) to reset, transition and observation"""
    reset_gv_debug(False)
    seen = {}

    def reset_f(*, rng=None):
        seen['reset'] = rng
        return R.empty(Shape(4, 4), rng=rng)

    def trans_f(state, action, *, rng=None):
        seen['transition'] = rng

    def obs_f(state, *, rng=None):
        seen['observation'] = rng
        return OF.fully_transparent(state, area=Area((0, 0), (0, 0)), rng=rng)

    types = [Floor, Wall, Exit]
    env = GridWorld(StateSpace(Shape(4, 4), types, [Color.NONE]), ActionSpace(list(Action)), ObservationSpace(Shape(1, 1), types, [Color.NONE]),
                    reset_f, trans_f, obs_f, partial(RF.living_reward, reward=0.0), TF.reach_exit)
    with guard_globals(sx):
        seed = int(sx.int('seed', 0, 3))
        env.set_seed(seed)
        own = env._rng
        sx.check(isinstance(own, np.random.Generator), 'set_seed-makes-a-generator')
        op = sx.choice('op', ['reset', 'step', 'observation', 'reset-step-observation'])
        env.reset()
        if 'step' in op:
            env.step(sx.choice('a', ACTIONS[:3]))
        if 'observation' in op:
            env.observation
    sx.cover('gridworld-' + op)
    sx.check(all(r is own for r in seen.values()) and 'reset' in seen, 'components-receive-the-environment-generator', repr(list(seen)))
    other = GridWorld(env.state_space, env.action_space, env.observation_space, reset_f, trans_f, obs_f, partial(RF.living_reward, reward=0.0), TF.reach_exit)
    other.set_seed(seed)
    sx.check(other._rng is not own, 'each-environment-has-its-own-generator')
    third = GridWorld(env.state_space, env.action_space, env.observation_space, reset_f, trans_f, obs_f, partial(RF.living_reward, reward=0.0), TF.reach_exit)
    third.set_seed(seed)
    sx.check(list(other._rng.integers(0, 1 << 30, size=4)) == list(third._rng.integers(0, 1 << 30, size=4)), 'same-seed-same-stream')


# ---------------------------------------------------------------------------
# order independence of set-valued parameters (2-safety)


class OrderedSetStub:
    """a set whose iteration order is an arbitrary permutation (chosen symbolically)"""

    def __init__(self, elements, order):
        self._e = list(elements)
        self._o = list(order)

    def __iter__(self):
        return iter([self._e[i] for i in self._o])

    def __len__(self):
        return len(self._e)

    def __contains__(self, x):
        return x in self._e

    def __repr__(self):
        return '{' + ', '.join(str(self._e[i]) for i in self._o) + '}'

    # set algebra keeps the (arbitrary) order of what remains
    def _keep(self, pred, extra=()):
        e = [x for x in self if pred(x)] + [x for x in extra if x not in self._e]
        return OrderedSetStub(e, range(len(e)))

    def __sub__(self, other):
        return self._keep(lambda x: x not in other)

    def __and__(self, other):
        return self._keep(lambda x: x in other)

    def __or__(self, other):
        return self._keep(lambda x: True, list(other))

    __rand__ = __and__
    __ror__ = __or__

    def __rsub__(self, other):
        return type(other)(x for x in other if x not in self._e)

    def __eq__(self, other):
        try:
            return set(self._e) == set(other)
        except TypeError:
            return NotImplemented

    def __hash__(self):
        return hash(frozenset(self._e))

    def issubset(self, other):
        return all(x in other for x in self._e)

    def difference(self, *others):
        return self._keep(lambda x: all(x not in o for o in others))

    def union(self, *others):
        return self._keep(lambda x: True, [x for o in others for x in o])

    def intersection(self, *others):
        return self._keep(lambda x: all(x in o for o in others))

    def copy(self):
        return OrderedSetStub(self._e, self._o)


def sym_perm(sx, name, n):
    left = list(range(n))
    out = []
    for i in range(n - 1):
        k = int(sx.int(f'{name}{i}', 0, len(left) - 1))
        out.append(left.pop(k))
    out.append(left[0])
    return out


def mk_order(fname, H, W, ncol):
    colours = [Color.RED, Color.GREEN, Color.BLUE, Color.YELLOW][:ncol]

    def run(sx, cs, rng):
        if fname == 'memory':
            return R.memory(Shape(H, W), cs, rng=rng)
        return R.memory_rooms(Shape(H, W), (1, 1), cs, 1, 2, rng=rng)

    def h(sx):
        p1 = sym_perm(sx, 'p', ncol)
        p2 = sym_perm(sx, 'q', ncol)
        rng = SymRng(sx)
        st1 = run(sx, OrderedSetStub(colours, p1), rng)
        st2 = run(sx, OrderedSetStub(colours, p2), ReplayRng(sx, rng.log))
        sx.cover('two-orders', nontrivial=p1 != p2)
        sx.note('orders', [p1, p2])
        sx.check(full_state(st1) == full_state(st2), 'same-draws-same-state-under-any-set-order',
                 f'order {p1} vs {p2}: exits/beacons differ')
    return h


# ---------------------------------------------------------------------------
# concrete side checks (finite; reported apart)


def side_trajectories(nseeds, nsteps):
    import glob

    import gym_gridverse.envs.yaml.factory as F

    from ..miniyaml import load_file

    def f():
        bad, cases = [], 0
        files = sorted(glob.glob(os.path.join(REPO, 'yaml', '*.yaml')))
        for path in files:
            data = load_file(path)
            for seed in range(nseeds):
                for dbg in (True, False):
                    reset_gv_debug(True)
                    a, c = F.factory_env_from_data(load_file(path)), F.factory_env_from_data(load_file(path))
                    reset_gv_debug(dbg)
                    b = F.factory_env_from_data(data)
                    a.set_seed(seed), b.set_seed(seed), c.set_seed(seed + 1000)
                    gvrng.reset_gv_rng(123)
                    ref = gvrng.get_gv_rng().bit_generator.state['state']['state']
                    acts = np.random.default_rng(7 + seed).integers(0, len(a.action_space.actions), size=nsteps)
                    ta, tb = [], []
                    reset_gv_debug(True)
                    a.reset()
                    for i in acts:
                        ta.append((a.step(a.action_space.actions[i]), full_state(a.state), repr(a.observation.grid.objects)))
                    # b is driven interleaved with a third environment and with the other debug setting
                    reset_gv_debug(dbg)
                    b.reset()
                    c.reset()
                    for i in acts:
                        c.step(c.action_space.actions[(i + 1) % len(c.action_space.actions)])
                        c.observation
                        tb.append((b.step(b.action_space.actions[i]), full_state(b.state), repr(b.observation.grid.objects)))
                        if i % 3 == 0:
                            c.reset()
                    cases += 1
                    if ta != tb:
                        bad.append(dict(label='seeded-trajectories-differ', message=f'{os.path.basename(path)} seed={seed} debug={dbg}', inputs=dict(inputs={}, notes={})))
                    if gvrng.get_gv_rng().bit_generator.state['state']['state'] != ref:
                        bad.append(dict(label='library-generator-perturbed', message=f'{os.path.basename(path)} seed={seed}', inputs=dict(inputs={}, notes={})))
        reset_gv_debug(False)
        return dict(cases=cases, violations=bad[:5], detail=f'{len(files)} shipped configurations x {nseeds} seeds x debug on/off, {nsteps} steps, interleaved with a third environment')
    return f


HASHSEED_SCRIPT = r'''
import sys
sys.path.insert(0, sys.argv[1]); sys.path.insert(0, sys.argv[2])
import vf
from vf.miniyaml import load_file
import gym_gridverse.envs.yaml.factory as F
env = F.factory_env_from_data(load_file(sys.argv[3]))
out = []
for seed in range(int(sys.argv[4])):
    env.set_seed(seed); env.reset()
    st = env.state
    out.append([[repr(o) + str(getattr(o, 'color', '')) for o in row] for row in st.grid.objects] + [repr(st.agent)])
    for a in list(env.action_space.actions) * 2:
        env.step(a)
    out.append(repr(env.state.agent))
print(repr(out))
'''


def side_hashseed(configs, hashseeds, nseeds):
    def f():
        bad, cases = [], 0
        here = os.path.dirname(os.path.dirname(os.path.dirname(os.path.abspath(__file__))))
        for cfg in configs:
            path = os.path.join(REPO, 'yaml', cfg)
            outs = []
            for hs in hashseeds:
                env = dict(os.environ, PYTHONHASHSEED=str(hs), PYTHONDONTWRITEBYTECODE='1')
                p = subprocess.run([sys.executable, '-W', 'ignore', '-c', HASHSEED_SCRIPT, here, REPO, path, str(nseeds)], capture_output=True, text=True, env=env, timeout=600)
                if p.returncode != 0:
                    bad.append(dict(label='hashseed-run-failed', message=p.stderr[-300:], inputs=dict(inputs={}, notes={})))
                outs.append(p.stdout)
                cases += 1
            if len(set(outs)) != 1:
                bad.append(dict(label='trajectory-depends-on-PYTHONHASHSEED', message=f'{cfg}: outputs differ between PYTHONHASHSEED={hashseeds}', inputs=dict(inputs={}, notes={})))
        return dict(cases=cases, violations=bad[:5], detail=f'{configs} under PYTHONHASHSEED in {hashseeds}, {nseeds} seeds')
    return f


def obligations(tier):
    q = tier == 'quick'
    obs = [Obligation(f'reset-threading-{n}', mk_reset_threading(n), dict(function=n, shape=list(RESET_SHAPES[n]))) for n in RESETS]
    for name in TRANS:
        for (H, W) in ([(1, 3)] if q else [(1, 3), (2, 2)]):
            obs.append(Obligation(f'transition-threading-{name}-{H}x{W}', mk_transition_threading(name, H, W), dict(function=name, H=H, W=W)))
    for fname in ('fully_transparent', 'partially_occluded', 'raytracing', 'stochastic_raytracing'):
        obs.append(Obligation(f'observation-threading-{fname}', mk_observation_threading(fname), dict(function=fname)))
    obs.append(Obligation('gridworld-threading', h_gridworld_threading))
    obs.append(Obligation('reward-termination-use-no-generator', h_reward_termination_no_rng))
    for n in ([2, 3] if q else [2, 3, 4]):
        obs.append(Obligation(f'order-independence-memory-5x5-{n}colours', mk_order('memory', 5, 5, n), dict(function='memory', colours=n)))
        if n <= 3:  # 4 colours x 4! x 4! orders x all placements does not finish
            obs.append(Obligation(f'order-independence-memory_rooms-4x4-{n}colours', mk_order('memory_rooms', 4, 4, n), dict(function='memory_rooms', colours=n)))
    # interleaving with other environments must not change a deterministic answer (memo tables shared between environments)
    from .c03 import h_history_dijkstra
    obs.append(Obligation('interleaved-questions-shortest-path-reward', h_history_dijkstra, dict(reward='getting_closer_shortest_path', between='0..2 questions of other environments (other exit, other layout, 12 layouts, ray fans)')))
    obs.append(Obligation('side-seeded-trajectories', side_trajectories(2 if q else 5, 30 if q else 60), kind='concrete'))
    cfgs = ['gv_memory.5x5.yaml', 'gv_memory_four_rooms.7x7.yaml', 'gv_keydoor.5x5.yaml', 'gv_dynamic_obstacles.5x5.yaml']
    obs.append(Obligation('side-hashseed', side_hashseed(cfgs if q else cfgs + ['gv_memory.9x9.yaml', 'gv_memory_nine_rooms.10x10.yaml'], [0, 2] if q else [0, 1, 2], 8), kind='concrete'))
    return obs
