"""C05 Observations are sound: they never show anything that is not there."""
from gym_gridverse.geometry import Orientation
from gym_gridverse.grid_object import Hidden, NoneGridObject

from ..runner import Obligation
from ..stubs import SymRng
from .obs_common import (AREAS_QUICK, AREAS_THOROUGH, FUNCS, Tok, area_ok, concrete_area, fixed_area,
                         make_world, needs, observe, sym_area, sym_pose, world_cell)

PROPERTY = 'C05'
LEVEL = 'other'
SCOPE = ('each built-in observation function on worlds of distinct token cells whose opacity is a symbolic boolean (all occluder layouts at '
         'once), symbolic agent pose and symbolic view area: every observation cell is Hidden or IS (identity) the token of the world '
         'cell given by an explicit rotation formula, out-of-grid cells are Hidden, shape/anchor/heading/held item as documented')
BOUNDS = {
    'quick': dict(box_contents='2x2 worlds differing only in the content of one box (4 contents), observed one after the other or the box replaced in place', worlds='1x1, 1x2, 2x2 with every view area with ymin,ymax in [-2,1], xmin,xmax in [-2,2]; 1x3, 3x2, 3x4 with 9 selected areas (symmetric, asymmetric, off-centre, agent outside the view); '
                  'partially_occluded: agent on the bottom row of the view; ray functions: agent inside the view', poses='every cell x 4 headings',
                  opacity='symbolic per world cell', draws='stochastic_raytracing: every draw a symbolic real in [0,1); views of at most 6 cells (each view cell forks on its draw)'),
    'thorough': dict(worlds='small worlds up to 2x3 with every area of the box; 1x4, 3x2, 3x4, 4x4 with 13 selected areas up to 5x5', views='see worlds', poses='every cell x 4 headings', opacity='symbolic', draws='symbolic'),
}
OUTSIDE = 'the shipped 7x7 view is covered on an 8x9 world with three symbolic occluders only; 13x13 worlds and arbitrary occluder patterns under a 7x7 view are outside'
ASSUMPTIONS = ['documented preconditions of partially_occluded (agent on the bottom row of the view) and of the ray functions (agent inside the view)']
STUBS = ['Tok cells (unregistered GridObject subclass, identity equality, symbolic blocks_vision)', 'SymRng']
TIME_LIMIT = {'quick': 300, 'thorough': 1800}


def mk(fname, H, W, box=None, fixed=None, with_held=True, symbolic_cells=None):
    def h(sx):
        toks = make_world(sx, H, W)
        if symbolic_cells is not None:  # large worlds: only these cells keep a symbolic opacity, the rest is transparent
            for y in range(H):
                for x in range(W):
                    if (y, x) not in symbolic_cells:
                        toks[y][x].force(False)
        pose = sym_pose(sx, H, W)
        area = sym_area(sx, box, **needs(fname)) if fixed is None else fixed_area(sx, fixed, fname)
        held = Tok('held') if with_held else None
        rng = SymRng(sx) if fname == 'stochastic_raytracing' else None
        ob = observe(fname, toks, pose, area, held, rng)
        ac = concrete_area(area)
        pose_c = (int(pose[0]), int(pose[1]), pose[2])
        h_, w_ = ac[1] - ac[0] + 1, ac[3] - ac[2] + 1
        sx.cover('observation')
        sx.check(ob.grid.shape.height == h_ and ob.grid.shape.width == w_, 'shape-is-area-shape')
        sx.check(len(ob.grid.objects) == h_ and all(len(r) == w_ for r in ob.grid.objects), 'rows-match-shape')
        p = ob.agent.position
        sx.check(int(p.y) == -ac[0] and int(p.x) == -ac[2], 'agent-at-view-anchor', f'{p} vs {(-ac[0], -ac[2])}')
        sx.check(ob.agent.orientation is Orientation.F, 'agent-faces-forward')
        if held is None:
            sx.check(isinstance(ob.agent.grid_object, NoneGridObject), 'held-none')
        else:
            sx.check(ob.agent.grid_object == held, 'held-item-identical')
        shown = 0
        for i in range(h_):
            for j in range(w_):
                c = ob.grid.objects[i][j]
                wy, wx, inside = world_cell(H, W, pose_c, ac, i, j)
                if isinstance(c, Hidden):
                    if fname == 'fully_transparent':
                        sx.check(not inside, 'fully-transparent-shows-every-in-grid-cell', f'obs({i},{j}) world({wy},{wx})')
                    continue
                shown += 1
                sx.check(inside, 'shown-cell-lies-inside-the-grid', f'obs({i},{j}) -> world({wy},{wx}) shows {c!r}')
                sx.check(c == toks[wy][wx], 'shown-cell-is-the-world-cell', f'obs({i},{j}) -> world({wy},{wx}) shows {c!r}')
        if shown > 1:
            sx.cover('several-cells-shown')
    return h


def mk_box_content(fname, H, W):
    """what is INSIDE a box is part of what is there: a second world that differs from an earlier one only in the content of a box (or the
    same world after the box was replaced in place) is observed with ITS content, whatever was observed before"""
    from gym_gridverse.agent import Agent
    from gym_gridverse.geometry import Area, Position
    from gym_gridverse.grid import Grid
    from gym_gridverse.grid_object import Box, Color, Floor, Key, Wall
    from gym_gridverse.state import State
    from ..stubs import ORS, same_object
    import numpy as np
    contents = [('Key(RED)', lambda: Key(Color.RED)), ('Key(BLUE)', lambda: Key(Color.BLUE)), ('Floor', Floor), ('Box(Key(RED))', lambda: Box(Key(Color.RED)))]

    def h(sx):
        by, bx = int(sx.int('by', 0, H - 1)), int(sx.int('bx', 0, W - 1))
        ay, ax, o = int(sx.int('ay', 0, H - 1)), int(sx.int('ax', 0, W - 1)), sx.choice('o', ORS)
        c1, c2 = sx.choice('first', contents), sx.choice('second', contents)
        sx.assume(c1[0] != c2[0])
        area = Area((-1, 0), (-1, 1))
        rng = np.random.default_rng(0)

        def world(content):
            rows = [[Floor() for _ in range(W)] for _ in range(H)]
            rows[by][bx] = Box(content())
            return State(Grid(rows), Agent(Position(ay, ax), o))

        st1 = world(c1[1])
        FUNCS[fname](st1, area=area, rng=rng)
        how = sx.choice('how', ['another-state', 'box-replaced-in-place'])
        if how == 'another-state':
            st2 = world(c2[1])
        else:
            st1.grid[Position(by, bx)] = Box(c2[1]())
            st2 = st1
        ob = FUNCS[fname](st2, area=area, rng=rng)
        sx.cover(how)
        shown = [c for row in ob.grid.objects for c in row if isinstance(c, Box)]
        sx.cover('box-in-view', nontrivial=bool(shown))
        for c in shown:
            sx.check(same_object(c, Box(c2[1]())), 'observed-box-holds-what-the-world-box-holds', f'world box holds {c2[0]}, observed {c!r} (earlier world: {c1[0]})')
    return h


def obligations(tier):
    q = tier == 'quick'
    box = (-2, 1, -2, 2)
    obs = []
    for fname in FUNCS:
        if fname != 'stochastic_raytracing':
            obs.append(Obligation(f'{fname}-box-content-after-an-earlier-observation-2x2', mk_box_content(fname, 2, 2), dict(function=fname, H=2, W=2, view=[2, 3])))
    for fname in FUNCS:
        # every view area of the box, on small worlds
        for (H, W) in ([(1, 1), (1, 2), (2, 2)] if q else [(1, 1), (1, 2), (2, 1), (2, 2), (2, 3)]):
            b = (-1, 0, -1, 1) if fname == 'stochastic_raytracing' else box  # each view cell forks on its draw
            obs.append(Obligation(f'{fname}-{H}x{W}-every-area', mk(fname, H, W, box=b, with_held=(H, W) != (1, 1)),
                                  dict(function=fname, H=H, W=W, view_box=list(b))))
        # selected (asymmetric, off-centre, agent-outside) view areas on larger worlds
        for (H, W) in ([(1, 3), (3, 2), (3, 4)] if q else [(1, 4), (3, 2), (3, 4), (4, 4)]):
            for a in (AREAS_QUICK if q else AREAS_THOROUGH):
                if not area_ok(a, fname):
                    continue
                if fname == 'stochastic_raytracing' and (a[1] - a[0] + 1) * (a[3] - a[2] + 1) > (6 if q else 9):
                    continue
                obs.append(Obligation(f'{fname}-{H}x{W}-area{a}', mk(fname, H, W, fixed=a), dict(function=fname, H=H, W=W, area=list(a))))
    # the shipped 7x7 view ((-6,0),(-3,3)) on a non-square 8x9 world: every pose, three cells with symbolic opacity
    for fname in FUNCS:
        if fname == 'stochastic_raytracing':
            continue  # 49 draws
        obs.append(Obligation(f'{fname}-8x9-shipped-view', mk(fname, 8, 9, fixed=(-6, 0, -3, 3), symbolic_cells={(3, 4), (4, 4), (4, 3)}),
                              dict(function=fname, H=8, W=9, area=[-6, 0, -3, 3], symbolic_opacity='3 cells')))
    return obs
