"""C14 Every initial state is winnable."""
from collections import deque
from functools import partial

import z3

from gym_gridverse.action import Action
from gym_gridverse.debugging import reset_gv_debug
from gym_gridverse.envs import observation_functions as OF
from gym_gridverse.envs import reset_functions as R
from gym_gridverse.envs import reward_functions as RF
from gym_gridverse.envs import terminating_functions as TF
from gym_gridverse.envs import transition_functions as T
from gym_gridverse.envs.gridworld import GridWorld
from gym_gridverse.geometry import Shape
from gym_gridverse.grid_object import (Beacon, Color, Door, Exit, Floor, Key,
                                       MovingObstacle, NoneGridObject, Telepod, Wall)
from gym_gridverse.spaces import ActionSpace, ObservationSpace, StateSpace

from .. import symx
from ..runner import Obligation
from ..stubs import SymRng
from .c11 import ScriptRng

PROPERTY = 'C14'
LEVEL = 'other'
SCOPE = ('universal part: every initial state of the bounded parameter family, obtained by exploring the real reset functions with every rng draw a '
         'symbolic variable (each path = one outcome of all draws). Existential part, per initial state: the one-step successor relation is obtained by '
         'running the real GridWorld.functional_step of the shipped composition on every reachable (state, action, draw outcome); z3 (fixedpoint engine) '
         'decides whether a goal state is in the least fixpoint of that relation from the initial state without passing through a terminating state; '
         'a positive answer comes with an action/draw sequence that is replayed on the real step function and must end on the rewarded exit; a negative '
         'answer is a violation (the relation was produced by the real step function, so it is already confirmed)')
BOUNDS = {
    'quick': dict(limit_layouts='rooms 5x5 (1,3), (3,1), 4x6 (1,3), 4x7 (1,3): refused with ValueError or winnable', empty='4x4..5x5, both flags', crossing='5x5 (1-2 rivers), 7x7 (1-3 rivers), rivers of Wall', rooms='5x5 layouts 1x2, 2x1, 2x2; 5x7 layout 1x2',
                  keydoor='4x5, 4x6, 5x5, 7x5', teleport='4x5, 5x5', memory='5x5, 6x5, 5x7 with 2-3 colours', memory_rooms='4x5 1x2, 5x4 2x1 (1 beacon, 2 exits)',
                  dynamic_obstacles='4x4 (<=2 obstacles), 5x5 (1 obstacle); the existential quantifier also ranges over the obstacle draws',
                  search='explicit graphs of at most 20000 states; agent keeps the key once picked (sound for an existence claim)'),
    'thorough': dict(extra='crossing 9x9 (1-2 rivers), rooms 7x7 2x2, keydoor 5x6/6x5, memory_rooms 5x5 2x2, dynamic_obstacles 5x5 with 2 obstacles'),
}
OUTSIDE = 'the shipped 9x9..13x13 shapes of rooms/memory_rooms/keydoor (number of initial states); larger obstacle counts'
ASSUMPTIONS = ['goal: a terminating step that leaves the agent on an Exit (memory tasks: the Exit of the beacons\' colour); non-goal terminating states are never expanded',
               'compositions and termination functions are those of the shipped configuration of each reset function']
STUBS = ['SymRng (resets)', 'ScriptRng (enumerates the outcomes of rng.choice for stochastic dynamics)']
TIME_LIMIT = {'quick': 400, 'thorough': 2400}

MOVE6 = [Action.MOVE_FORWARD, Action.MOVE_BACKWARD, Action.MOVE_LEFT, Action.MOVE_RIGHT, Action.TURN_LEFT, Action.TURN_RIGHT]
TYPES = [Floor, Wall, Exit, Door, Key, MovingObstacle, Telepod, Beacon]


def make_env(kind):
    tf = {'move': [T.move_agent, T.turn_agent], 'keydoor': [T.move_agent, T.turn_agent, T.actuate_door, T.pickndrop],
          'teleport': [T.move_agent, T.turn_agent, T.teleport], 'obstacles': [T.move_agent, T.turn_agent, T.move_obstacles]}[kind]
    term = (partial(TF.reduce_any, terminating_functions=[TF.reach_exit, TF.bump_moving_obstacle, TF.bump_into_wall]) if kind == 'obstacles' else TF.reach_exit)
    actions = list(Action) if kind == 'keydoor' else MOVE6
    return GridWorld(StateSpace(Shape(3, 3), TYPES, list(Color)), ActionSpace(actions), ObservationSpace(Shape(1, 1), TYPES, list(Color)),
                     None, partial(T.chain, transition_functions=tf), None, partial(RF.living_reward, reward=0.0), term)


def key_of(st):
    return (tuple(tuple((type(o).__name__, getattr(o, 'state', None), o.color) for o in row) for row in st.grid.objects),
            int(st.agent.position.y), int(st.agent.position.x), st.agent.orientation, type(st.agent.grid_object).__name__, getattr(st.agent.grid_object, 'color', None))


def successors(env, st, a):
    """all outcomes of one real step: list of (script, next_state, done)"""
    out, todo = [], [()]
    while todo:
        script = todo.pop()
        rng = ScriptRng(script)
        env._rng = rng
        nxt, _, done = env.functional_step(st, a)
        if len(rng.arity) > len(script):
            k = len(script)
            todo.extend(script + (v,) for v in range(rng.arity[k]))
            continue
        out.append((script, nxt, bool(done)))
    return out


def is_goal(st, memory):
    here = st.grid.objects[int(st.agent.position.y)][int(st.agent.position.x)]
    if not isinstance(here, Exit):
        return False
    if not memory:
        return True
    beacons = [o for row in st.grid.objects for o in row if isinstance(o, Beacon)]
    return bool(beacons) and here.color is beacons[0].color


def decide_winnable(sx, env, s0, memory, cap=20000):
    """returns (verdict_by_z3, witness or None, n_states, n_edges)"""
    ids = {key_of(s0): 0}
    states = [s0]
    parent = {0: None}
    edges = []
    goal_ids = set()
    dq = deque([0])
    while dq:
        i = dq.popleft()
        st = states[i]
        holding_key = isinstance(st.agent.grid_object, Key)
        for a in env.action_space.actions:
            if a is Action.PICK_N_DROP and holding_key:
                continue  # behaviours that keep the key once picked suffice for an existence claim
            for script, nxt, done in successors(env, st, a):
                k = key_of(nxt)
                j = ids.get(k)
                if j is None:
                    j = len(states)
                    ids[k] = j
                    states.append(nxt)
                    parent[j] = (i, a, script)
                    if done:
                        if is_goal(nxt, memory):
                            goal_ids.add(j)
                    else:
                        dq.append(j)
                    if len(states) > cap:
                        sx.inconclusive_reasons.append('state graph larger than the cap') if hasattr(sx, 'inconclusive_reasons') else None
                        raise symx.Abort()
                edges.append((i, j))
    # the solver decides reachability over the extracted relation (least fixpoint)
    fp = z3.Fixedpoint()
    fp.set(engine='datalog')
    bits = max(1, (len(states) - 1).bit_length())
    srt = z3.BitVecSort(bits)
    reach = z3.Function('reach', srt, z3.BoolSort())
    step = z3.Function('step', srt, srt, z3.BoolSort())
    goal = z3.Function('goal', srt, z3.BoolSort())
    win = z3.Function('win', z3.BoolSort())
    fp.register_relation(reach, step, goal, win)
    x, y = z3.Consts('x y', srt)
    fp.declare_var(x, y)
    fp.fact(reach(z3.BitVecVal(0, srt)))
    for (i, j) in set(edges):
        fp.fact(step(z3.BitVecVal(i, srt), z3.BitVecVal(j, srt)))
    for j in goal_ids:
        fp.fact(goal(z3.BitVecVal(j, srt)))
    fp.rule(reach(y), [reach(x), step(x, y)])
    fp.rule(win(), [reach(x), goal(x)])
    res = fp.query(win())
    verdict = res == z3.sat
    witness = None
    if verdict:
        # shortest witness from the search tree (every goal id was reached through non-terminating states only)
        j = min(goal_ids)
        seq = []
        while parent[j] is not None:
            i, a, script = parent[j]
            seq.append((a, script))
            j = i
        witness = list(reversed(seq))
    return verdict, witness, len(states), len(set(edges))


def replay_witness(env, s0, witness, memory):
    st = s0
    done = False
    for a, script in witness:
        if done:
            return False
        env._rng = ScriptRng(script)
        st, _, done = env.functional_step(st, a)
    return bool(done) and is_goal(st, memory)


RESETS = {
    'empty': ('move', lambda H, W, sx, p: R.empty(Shape(H, W), sx.choice('ra', [False, True]), sx.choice('re', [False, True]), rng=SymRng(sx))),
    'crossing': ('move', lambda H, W, sx, p: R.crossing(Shape(H, W), p['n'], Wall, rng=SymRng(sx, preset=p.get('preset')))),
    'rooms': ('move', lambda H, W, sx, p: R.rooms(Shape(H, W), p['layout'], rng=SymRng(sx, preset=p.get('preset')))),
    'keydoor': ('keydoor', lambda H, W, sx, p: R.keydoor(Shape(H, W), rng=SymRng(sx))),
    'teleport': ('teleport', lambda H, W, sx, p: R.teleport(Shape(H, W), rng=SymRng(sx))),
    'memory': ('move', lambda H, W, sx, p: R.memory(Shape(H, W), p['colors'], rng=SymRng(sx))),
    'memory_rooms': ('move', lambda H, W, sx, p: R.memory_rooms(Shape(H, W), p['layout'], p['colors'], 1, 2, rng=SymRng(sx))),
    'dynamic_obstacles': ('obstacles', lambda H, W, sx, p: R.dynamic_obstacles(Shape(H, W), p['k'], sx.choice('ra', [False, True]) if p.get('ra') else False, rng=SymRng(sx))),
}


def mk(name, H, W, params):
    kind, call = RESETS[name]
    memory = name.startswith('memory')

    def h(sx):
        reset_gv_debug(False)
        try:
            s0 = call(H, W, sx, params)  # every draw symbolic: one path per outcome of all draws
        except ValueError:
            if params.get('may_refuse'):  # a layout at the limit of what the size can hold: refusing it is one of the two legal answers
                sx.cover('refused-with-ValueError')
                sx.check(True, 'parameters-refused-no-initial-state')
                return
            sx.assume(False)  # parameters rejected: no initial state (C13's business)
        env = make_env(kind)
        verdict, witness, ns, ne = decide_winnable(sx, env, s0, memory)
        if not verdict and memory:
            # diagnosis carried into the violation record: is it (only) a non-matching exit that cuts every path?
            from gym_gridverse.utils.fast_copy import fast_copy
            t0 = fast_copy(s0)
            beacon = next(o for row in t0.grid.objects for o in row if isinstance(o, Beacon))
            for y, row in enumerate(t0.grid.objects):
                for x, o in enumerate(row):
                    if isinstance(o, Exit) and o.color is not beacon.color:
                        t0.grid[y, x] = Floor()
            v2, _, _, _ = decide_winnable(sx, make_env(kind), t0, memory)
            sx.note('cause', 'non-matching exit on every path to the matching exit' if v2 else 'other')
        sx.cover('initial-state', nontrivial=ns > 1)
        sx.bag['states'] = max(sx.bag.get('states', 0), ns)
        sx.bag['edges'] = sx.bag.get('edges', 0) + ne
        layout = [''.join({'Floor': '.', 'Wall': '#', 'Exit': 'E', 'Door': 'D', 'Key': 'K', 'MovingObstacle': 'O', 'Telepod': 'T', 'Beacon': 'B'}[type(o).__name__]
                          for o in row) for row in s0.grid.objects]
        sx.note('layout', layout)
        sx.note('agent', [int(s0.agent.position.y), int(s0.agent.position.x), s0.agent.orientation.name])
        sx.check(verdict, 'initial-state-winnable', f'{layout} agent {key_of(s0)[1:4]}: goal not reachable without passing a terminating state ({ns} states explored)')
        sx.check(replay_witness(make_env(kind), s0, witness, memory), 'witness-replays-on-the-real-step-function', f'{[(a.name, s) for a, s in witness]}')
        sx.bag['witness_len'] = max(sx.bag.get('witness_len', 0), len(witness))
    return h


RB = frozenset({Color.RED, Color.BLUE})
RGB = frozenset({Color.RED, Color.GREEN, Color.BLUE})


def obligations(tier):
    q = tier == 'quick'
    obs = []

    def add(name, H, W, **p):
        tag = '-'.join(f'{k}{v}' for k, v in p.items() if k not in ('colors', 'preset')) + ('-draws' + ''.join(str(v) for v in p['preset'].values()) if 'preset' in p else '') + (f'-{len(p["colors"])}colours' if 'colors' in p else '')
        obs.append(Obligation(f'{name}-{H}x{W}' + (('-' + tag) if tag else ''), mk(name, H, W, p), max_violations=100000, params=dict(reset=name, H=H, W=W, **{k: (sorted(c.name for c in v) if k == 'colors' else (list(v.values()) if k == 'preset' else v)) for k, v in p.items()})))

    for (H, W) in [(4, 4), (4, 5), (5, 5)]:
        add('empty', H, W)
    for (H, W, ns) in [(5, 5, [1, 2]), (7, 7, [1, 2, 3])] + ([] if q else [(9, 9, [1]), (5, 9, [1, 2, 3])]):
        for n in ns:
            add('crossing', H, W, n=n)
    if not q:  # 9x9 with 2 rivers: split by the first two draws of the river shuffle (6 candidate rivers)
        for i in range(6):
            for j in range(6):
                if i != j:
                    add('crossing', 9, 9, n=2, preset={0: i, 1: j})
    # (the last three: as many rooms along one axis as the size can hold, or more -- accepted, or refused with ValueError)
    for (H, W, lay) in [(5, 5, (1, 2)), (5, 5, (2, 1)), (5, 5, (2, 2)), (5, 7, (1, 2))]:
        add('rooms', H, W, layout=lay)
    for (H, W, lay) in [(5, 5, (1, 3)), (5, 5, (3, 1)), (4, 6, (1, 3)), (4, 7, (1, 3))]:
        add('rooms', H, W, layout=lay, may_refuse=True)
    if not q:  # the shipped four-rooms 7x7: split by its four passage draws
        import itertools
        for pv in itertools.product([1, 2], [4, 5], [1, 2], [4, 5]):
            add('rooms', 7, 7, layout=(2, 2), preset=dict(enumerate(pv)))
    for (H, W) in [(4, 6), (4, 5), (5, 5), (7, 5)] + ([] if q else [(5, 6), (6, 5), (8, 5)]):
        add('keydoor', H, W)
    for (H, W) in [(4, 5), (5, 5)] + ([] if q else [(5, 6)]):
        add('teleport', H, W)
    for (H, W, cs) in [(5, 5, RB), (6, 5, RGB), (5, 7, RB)] + ([] if q else [(7, 7, RGB)]):
        add('memory', H, W, colors=cs)
    for (H, W, lay) in [(4, 5, (1, 2)), (5, 4, (2, 1))] + ([] if q else [(5, 5, (2, 2)), (5, 7, (1, 2))]):
        add('memory_rooms', H, W, layout=lay, colors=RB)
    for (H, W, k, ra) in [(4, 4, 0, True), (4, 4, 1, True), (4, 4, 2, False), (5, 5, 1, False)] + ([] if q else [(5, 5, 1, True), (5, 5, 2, False)]):
        add('dynamic_obstacles', H, W, k=k, ra=ra)
    return obs
