"""C06 Hidden cells carry no information (occlusion is non-interfering and monotone)."""
from collections import deque

from gym_gridverse.grid_object import Hidden

from ..runner import Obligation
from ..stubs import SymRng
from .obs_common import (AREAS_QUICK, AREAS_THOROUGH, Tok, area_ok, concrete_area, fixed_area,
                         make_world, needs, observe, same_cells, sym_area, sym_pose,
                         world_cell)

PROPERTY = 'C06'
LEVEL = 'other'
SCOPE = ('partially_occluded and raytracing on worlds of token cells whose opacity is a symbolic boolean (every occluder layout of the bounded '
         'world at once): non-interference by self-composition (replace a hidden / out-of-view cell by a fresh token with independent '
         'opacity: same observation), own cell visible, every visible cell linked to the agent by 8-adjacent visible transparent cells, '
         'monotonicity (clearing a visible opaque cell hides nothing); stochastic_raytracing with symbolic draws only shows what the '
         'deterministic ray-traced view shows and always shows cells every ray reaches lit')
BOUNDS = {
    'quick': dict(earlier_calls='raytracing observation on 3x2 / 3x4 worlds after an observation of the same world with absolute_counts/threshold in (False, 0.75), (True, 0), (True, 3)', worlds='2x2 with every view area of the box (ymin in [-2,0], ymax 0..1, xmin,xmax in [-2,2]); 3x2, 3x4 with the selected areas (views of at most 9 cells on 3x4)',
                  replaced_cell='every world cell (hidden in view, or outside the view) by symbolic choice', opacity='symbolic per cell (all 2^n patterns)',
                  stochastic='views of at most 6 cells, every draw a symbolic real in [0,1) (0.0 included)', large_views='7x7 (shipped), 9x9, 11x11 views, agent bottom centre, 3 symbolic occluders next to the agent'),
    'thorough': dict(worlds='up to 2x3 every area; 3x2, 3x4, 4x4 with selected areas up to 5x5', replaced_cell='every', opacity='symbolic', stochastic='views up to 9 cells'),
}
OUTSIDE = '7x7 and larger views with arbitrary occluder patterns (2^49): they are covered only with three symbolic occluders next to the agent (large-view obligations, views 7x7..11x11, 13x13 thorough)'
ASSUMPTIONS = ['documented preconditions on the view area', 'adjacency means edge- or corner-sharing (8-neighbourhood) in view coordinates']
STUBS = ['Tok cells with symbolic blocks_vision', 'SymRng']
TIME_LIMIT = {'quick': 300, 'thorough': 1800}

DET = ['partially_occluded', 'raytracing']


def visible_mask(ob):
    return [[not isinstance(c, Hidden) for c in r] for r in ob.grid.objects]


def earlier_call(sx, toks, pose, area):
    """an EARLIER observation of the same world through the same ray-tracing visibility function with OTHER public parameters (stricter
    or more lenient): it must leave no trace in what the default observation function returns afterwards"""
    from functools import partial
    from gym_gridverse.agent import Agent
    from gym_gridverse.envs import observation_functions as OF
    from gym_gridverse.envs import visibility_functions as VF
    from gym_gridverse.geometry import Position
    from gym_gridverse.state import State
    from .obs_common import grid_of
    kw = sx.choice('earlier', [dict(absolute_counts=False, threshold=0.75), dict(absolute_counts=True, threshold=0), dict(absolute_counts=True, threshold=3)])
    st = State(grid_of(toks), Agent(Position(pose[0], pose[1]), pose[2], None))
    OF.from_visibility(st, area=area, visibility_function=partial(VF.raytracing, **kw))


def mk_noninterference(fname, H, W, box=None, fixed=None, prelude=False):
    def h(sx):
        toks = make_world(sx, H, W)
        pose = sym_pose(sx, H, W)
        area = sym_area(sx, box, **needs(fname)) if fixed is None else fixed_area(sx, fixed, fname)
        if prelude:
            earlier_call(sx, toks, pose, area)
        ob1 = observe(fname, toks, pose, area)
        ac = concrete_area(area)
        pose_c = (int(pose[0]), int(pose[1]), pose[2])
        hh, ww = ac[1] - ac[0] + 1, ac[3] - ac[2] + 1
        # which world cells does the observation show?
        shown = {}
        in_view = set()
        for i in range(hh):
            for j in range(ww):
                wy, wx, inside = world_cell(H, W, pose_c, ac, i, j)
                if inside:
                    in_view.add((wy, wx))
                    if not isinstance(ob1.grid.objects[i][j], Hidden):
                        shown[(wy, wx)] = (i, j)
        # own cell visible
        ay, ax = -ac[0], -ac[2]
        sx.check(not isinstance(ob1.grid.objects[ay][ax], Hidden), 'own-cell-visible')
        # replace one world cell that is hidden or outside the view
        cy = int(sx.int('cy', 0, H - 1))
        cx = int(sx.int('cx', 0, W - 1))
        sx.assume((cy, cx) not in shown)
        sx.cover('hidden-in-view-replaced' if (cy, cx) in in_view else 'out-of-view-replaced')
        toks2 = [list(r) for r in toks]
        toks2[cy][cx] = Tok('replacement')  # fresh token, independent symbolic opacity
        ob2 = observe(fname, toks2, pose, area)
        sx.check(same_cells(ob1, ob2), 'replacing-a-hidden-or-out-of-view-cell-changes-nothing',
                 f'pose {pose_c} area {ac} replaced {(cy, cx)}: {ob1.grid.objects} vs {ob2.grid.objects}')
    return h


def mk_connectivity(fname, H, W, box=None, fixed=None, prelude=False):
    def h(sx):
        toks = make_world(sx, H, W)
        pose = sym_pose(sx, H, W)
        area = sym_area(sx, box, **needs(fname)) if fixed is None else fixed_area(sx, fixed, fname)
        if prelude:
            earlier_call(sx, toks, pose, area)
        ob = observe(fname, toks, pose, area)
        ac = concrete_area(area)
        hh, ww = ac[1] - ac[0] + 1, ac[3] - ac[2] + 1
        vis = visible_mask(ob)
        ay, ax = -ac[0], -ac[2]
        sx.check(vis[ay][ax], 'own-cell-visible')

        def transparent(i, j):
            return not bool(ob.grid.objects[i][j].blocks_vision)

        # cells reachable from the agent through visible transparent cells (8-adjacency)
        reach = set()
        if transparent(ay, ax):
            reach.add((ay, ax))
            dq = deque([(ay, ax)])
            while dq:
                i, j = dq.popleft()
                for di in (-1, 0, 1):
                    for dj in (-1, 0, 1):
                        n = (i + di, j + dj)
                        if n != (i, j) and 0 <= n[0] < hh and 0 <= n[1] < ww and n not in reach and vis[n[0]][n[1]] and transparent(*n):
                            reach.add(n)
                            dq.append(n)
        nvis = 0
        for i in range(hh):
            for j in range(ww):
                if not vis[i][j] or (i, j) == (ay, ax):
                    continue
                nvis += 1
                linked = any((i + di, j + dj) in reach for di in (-1, 0, 1) for dj in (-1, 0, 1) if (di, dj) != (0, 0))
                sx.check(linked, 'visible-cell-linked-to-agent-by-transparent-visible-chain', f'view cell {(i, j)} area {ac} mask {vis}')
        sx.cover('connectivity', nontrivial=nvis > 0)
    return h


def mk_monotone(fname, H, W, box=None, fixed=None):
    def h(sx):
        toks = make_world(sx, H, W)
        pose = sym_pose(sx, H, W)
        area = sym_area(sx, box, **needs(fname)) if fixed is None else fixed_area(sx, fixed, fname)
        ob1 = observe(fname, toks, pose, area)
        ac = concrete_area(area)
        pose_c = (int(pose[0]), int(pose[1]), pose[2])
        hh, ww = ac[1] - ac[0] + 1, ac[3] - ac[2] + 1
        # choose a visible opaque cell and make it transparent
        ci = int(sx.int('ci', 0, hh - 1))
        cj = int(sx.int('cj', 0, ww - 1))
        c = ob1.grid.objects[ci][cj]
        sx.assume(not isinstance(c, Hidden))
        sx.assume(bool(c.blocks_vision))
        wy, wx, inside = world_cell(H, W, pose_c, ac, ci, cj)
        clear = Tok('cleared')
        clear.force(False)
        toks2 = [list(r) for r in toks]
        toks2[wy][wx] = clear
        ob2 = observe(fname, toks2, pose, area)
        v1, v2 = visible_mask(ob1), visible_mask(ob2)
        sx.cover('cleared-a-visible-opaque-cell')
        sx.check(all(v2[i][j] or not v1[i][j] for i in range(hh) for j in range(ww)), 'clearing-an-opaque-cell-hides-nothing', f'{v1} -> {v2}')
    return h


def mk_large(fname, n):
    """the shipped view sizes and beyond: n x n view on an n x n world, agent at the bottom centre facing forward; every cell is
    transparent except three cells next to the agent whose opacity stays symbolic"""
    from gym_gridverse.geometry import Area, Orientation

    def h(sx):
        toks = make_world(sx, n, n)
        c = n // 2
        symbolic = {(n - 2, c), (n - 2, c - 1), (n - 3, c)}
        for y in range(n):
            for x in range(n):
                if (y, x) not in symbolic:
                    toks[y][x].force(False)
        area = Area((-(n - 1), 0), (-c, c))
        pose = (n - 1, c, Orientation.F)
        ob = observe(fname, toks, pose, area)
        vis = visible_mask(ob)
        sx.cover('large-view')
        sx.check(vis[n - 1][c], 'own-cell-visible')
        opaque = {k: bool(toks[k[0]][k[1]].blocks_vision) for k in symbolic}
        # connectivity (view coordinates == world coordinates here)
        reach = {(n - 1, c)}
        dq = deque([(n - 1, c)])
        while dq:
            i, j = dq.popleft()
            for di in (-1, 0, 1):
                for dj in (-1, 0, 1):
                    q = (i + di, j + dj)
                    if q != (i, j) and 0 <= q[0] < n and 0 <= q[1] < n and q not in reach and vis[q[0]][q[1]] and not opaque.get(q, False):
                        reach.add(q)
                        dq.append(q)
        for i in range(n):
            for j in range(n):
                if vis[i][j] and (i, j) != (n - 1, c):
                    sx.check(any((i + di, j + dj) in reach for di in (-1, 0, 1) for dj in (-1, 0, 1) if (di, dj) != (0, 0)),
                             'visible-cell-linked-to-agent-by-transparent-visible-chain', f'cell {(i, j)}')
        if not any(opaque.values()) and all(all(r) for r in vis):
            sx.cover('unobstructed-view-shows-everything')  # (completeness of the ray fan is C19's claim, not asserted here)
        # non-interference: replace one hidden cell by a fresh token of unknown opacity
        hidden = [(i, j) for i in range(n) for j in range(n) if not vis[i][j]]
        if hidden:
            k = hidden[int(sx.int('which', 0, min(len(hidden), 3) - 1))]
            toks2 = [list(r) for r in toks]
            toks2[k[0]][k[1]] = Tok('replacement')
            ob2 = observe(fname, toks2, pose, area)
            sx.check(same_cells(ob, ob2), 'replacing-a-hidden-cell-changes-nothing', f'replaced {k}')
            sx.cover('hidden-replaced')
    return h


def mk_stochastic(H, W, box=None, fixed=None):
    def h(sx):
        toks = make_world(sx, H, W)
        pose = sym_pose(sx, H, W)
        area = sym_area(sx, box, **needs('raytracing')) if fixed is None else fixed_area(sx, fixed, 'raytracing')
        det = observe('raytracing', toks, pose, area)
        sto = observe('stochastic_raytracing', toks, pose, area, rng=SymRng(sx))
        # all rays lit <=> the cell is shown by a view with no occluder on its rays: computed with an all-transparent copy
        vd, vs = visible_mask(det), visible_mask(sto)
        hh, ww = len(vd), len(vd[0])
        sx.cover('stochastic')
        for i in range(hh):
            for j in range(ww):
                if vs[i][j]:
                    sx.check(vd[i][j], 'stochastic-shows-only-what-raytracing-can-show', f'view cell {(i, j)}: det {vd} sto {vs}')
        # cells every ray reaches lit: rays to them never met an opaque cell; with every world cell transparent all in-grid cells qualify
        if all(not bool(t.blocks_vision) for r in toks for t in r):
            clear_det = vd
            for i in range(hh):
                for j in range(ww):
                    if clear_det[i][j]:
                        sx.check(vs[i][j], 'fully-lit-cells-always-shown', f'view cell {(i, j)}')
            sx.cover('unobstructed')
    return h


def obligations(tier):
    qk = tier == 'quick'
    box = (-2, 1, -2, 2)
    obs = []
    for fname in DET:
        for kind, mkf in (('noninterference', mk_noninterference), ('connectivity', mk_connectivity), ('monotone', mk_monotone)):
            for (H, W) in ([(2, 2)] if qk else [(2, 2), (2, 3)]):
                obs.append(Obligation(f'{kind}-{fname}-{H}x{W}-every-area', mkf(fname, H, W, box=box), dict(kind=kind, function=fname, H=H, W=W, view_box=list(box))))
            for (H, W) in ([(3, 2), (3, 4)] if qk else [(3, 2), (3, 4), (4, 4)]):
                for a in (AREAS_QUICK if qk else AREAS_THOROUGH):
                    if qk and (H, W) == (3, 4) and (a[1] - a[0] + 1) * (a[3] - a[2] + 1) > 9:
                        continue  # 12-cell views on the 12-cell world: thorough tier
                    if fname == 'raytracing' and H * W >= 16 and (a[1] - a[0] + 1) * (a[3] - a[2] + 1) > 12:
                        continue
                    if (a[1] - a[0] + 1) * (a[3] - a[2] + 1) >= 20 and (H * W >= 16 or (fname == 'raytracing' and kind == 'monotone')):
                        continue  # exceeded the per-obligation limit of the thorough tier (measured): outside the bound
                    if area_ok(a, fname):
                        obs.append(Obligation(f'{kind}-{fname}-{H}x{W}-area{a}', mkf(fname, H, W, fixed=a), dict(kind=kind, function=fname, H=H, W=W, area=list(a))))
    # the default ray-traced observation after an earlier observation of the same world with other visibility parameters
    for kind, mkf in (('noninterference', mk_noninterference), ('connectivity', mk_connectivity)):
        for (H, W, a) in [(3, 2, (-2, 0, -1, 1)), (3, 4, (-2, 0, -1, 1))] + ([] if qk else [(3, 4, (-2, 0, -2, 2))]):
            obs.append(Obligation(f'{kind}-raytracing-{H}x{W}-area{a}-after-a-call-with-other-parameters', mkf('raytracing', H, W, fixed=a, prelude=True),
                                  dict(kind=kind, function='raytracing', H=H, W=W, area=list(a), earlier='absolute_counts/threshold in (False, 0.75), (True, 0), (True, 3)')))
    for fname in DET:
        for n in ([7, 9, 11] if qk else [7, 9, 11, 13]):
            obs.append(Obligation(f'large-view-{fname}-{n}x{n}', mk_large(fname, n), dict(function=fname, view=[n, n], symbolic_opacity='3 cells next to the agent, all others transparent')))
    for (H, W) in ([(2, 2)] if qk else [(2, 2), (2, 3)]):
        obs.append(Obligation(f'stochastic-{H}x{W}-every-area', mk_stochastic(H, W, box=(-1, 0, -1, 1)), dict(H=H, W=W, view_box=[-1, 0, -1, 1])))
    for (H, W) in [(3, 2), (3, 4)]:
        for a in (AREAS_QUICK if qk else AREAS_THOROUGH):
            if area_ok(a, 'raytracing') and (a[1] - a[0] + 1) * (a[3] - a[2] + 1) <= (6 if qk else 9):
                obs.append(Obligation(f'stochastic-{H}x{W}-area{a}', mk_stochastic(H, W, fixed=a), dict(H=H, W=W, area=list(a))))
    return obs
