"""Shared pieces of the transition / reward harnesses."""
from functools import partial

from gym_gridverse.action import Action
from gym_gridverse.envs import transition_functions as T
from gym_gridverse.geometry import Orientation
from gym_gridverse.grid_object import (Beacon, Box, Door, Exit, Floor, Hidden, Key,
                                       MovingObstacle, NoneGridObject, Telepod,
                                       Wall)

from ..stubs import ORS, same_object

ACTIONS = list(Action)
TURNS = {Orientation.F: 0, Orientation.R: 1, Orientation.B: 2, Orientation.L: 3}
FROM_TURNS = {v: k for k, v in TURNS.items()}

# unit displacement of a move action in the agent's own frame (y down, x right, facing up)
MOVE_UNIT = {Action.MOVE_FORWARD: (-1, 0), Action.MOVE_BACKWARD: (1, 0),
             Action.MOVE_LEFT: (0, -1), Action.MOVE_RIGHT: (0, 1)}


def rot(k, y, x):
    """oracle: k clockwise quarter turns of the vector (y, x)"""
    k %= 4
    if k == 0:
        return y, x
    if k == 1:
        return x, -y
    if k == 2:
        return -y, -x
    return -x, y


def blocks_movement(o):
    """documented movement semantics, restated (not read from the objects' own flag)"""
    if isinstance(o, (Wall, Box)):
        return True
    if isinstance(o, Door):
        return o.state is not Door.Status.OPEN
    return False


def holdable(o):
    return isinstance(o, Key)


SINGLE = {
    'move_agent': T.move_agent,
    'turn_agent': T.turn_agent,
    'pickndrop': T.pickndrop,
    'move_obstacles': T.move_obstacles,
    'actuate_door': T.actuate_door,
    'actuate_box': T.actuate_box,
    'teleport': T.teleport,
}
LOCAL = ['move_agent', 'turn_agent', 'pickndrop', 'actuate_door', 'actuate_box']

# shipped compositions (yaml/*.yaml transition_functions lists), plus the all-local chain
CHAINS = {
    'chain[move,turn]': ['move_agent', 'turn_agent'],
    'chain[move,turn,actuate_door,pickndrop]': ['move_agent', 'turn_agent', 'actuate_door', 'pickndrop'],
    'chain[move,turn,actuate_door,actuate_box,pickndrop]': ['move_agent', 'turn_agent', 'actuate_door', 'actuate_box', 'pickndrop'],
}


def transition(name):
    if name in SINGLE:
        return SINGLE[name]
    return partial(T.chain, transition_functions=[SINGLE[n] for n in CHAINS[name]])


def components(name):
    return [name] if name in SINGLE else CHAINS[name]


def in_grid(H, W, y, x):
    return 0 <= y < H and 0 <= x < W


def pre_cell(world, y, x):
    """fresh copy of the pre-state content of a cell (from the symbolic description)"""
    return world.make(y, x)


def post_cells(state):
    """cells of a state's grid that were materialised (lazy grid) -- or all of them when the grid is a plain list of lists
    (a copy routine under test may have rebuilt the grid with ordinary lists)"""
    rows = state.grid.objects
    if hasattr(rows, 'cells'):
        return rows.cells
    return {(y, x): o for y, row in enumerate(rows) for x, o in enumerate(row)}


def held_touched(state):
    f = getattr(state.agent, 'held_touched', None)
    return True if f is None else f()


def shapes(maxh, maxw, minh=1, minw=1):
    return [(h, w) for h in range(minh, maxh + 1) for w in range(minw, maxw + 1)]
