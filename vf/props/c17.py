"""C17 Configurations build exactly the environment they describe, or are rejected (partial scope)."""
import copy
import glob
import importlib
import inspect
import os
import sys
from functools import partial

import numpy as np

import gym_gridverse.envs.yaml.factory as F
from gym_gridverse.action import Action
from gym_gridverse.debugging import reset_gv_debug
from gym_gridverse.envs import observation_functions as OF
from gym_gridverse.envs import reset_functions as RSF
from gym_gridverse.envs import reward_functions as RF
from gym_gridverse.envs import terminating_functions as TF
from gym_gridverse.envs import transition_functions as T
from gym_gridverse.envs import visibility_functions as VF
from gym_gridverse.envs.gridworld import GridWorld
from gym_gridverse.geometry import Area, Position, Shape
from gym_gridverse.grid_object import Color, Door, grid_object_registry
from gym_gridverse.spaces import ActionSpace, ObservationSpace, StateSpace
from gym_gridverse.utils.fast_copy import fast_copy

from .. import REPO
from ..miniyaml import load_file
from ..runner import Obligation
from ..stubs import ORS, SIGMA_FULL, SymRng, alphabet, lazy_state, same_object
from ..symx import sym_and
from .c02 import full_state
from .c04 import ReplayRng, states_equal

PROPERTY = 'C17'
LEVEL = 'other'
SCOPE = ('for every shipped configuration (read with a small reader of the YAML subset they use: PyYAML is not installed here) the environment built by '
         'factory_env_from_data and an environment assembled in the harness directly from the named registry functions with the listed parameters '
         '(unaccepted parameters dropped) are observationally equivalent on symbolic inputs: same next state for a lazily symbolic state and action, '
         'same reward / flag / observation for a symbolic agent pose and action on reset layouts, same initial state for the same symbolic draws; '
         'spaces agree, the input dict is unchanged, a second build agrees; factory(name, **kw) is the registered function with exactly the accepted keywords, '
         'for symbolic numeric parameters. String-level rejection and file identity are concrete side checks')
BOUNDS = {
    'quick': dict(entries='every registered name of the six registries as a YAML-level entry, any subset of its optional parameters, nested entries two levels deep: input unchanged, second build agrees, equals the hand assembly', files='yaml/*.yaml (21), examples/coin_env.yaml; registered_envs/*.yaml are byte-identical copies (side check)',
                  transition='lazily symbolic 3x3 states over the alphabet of the declared state space (scanning dynamics: 1x3), all actions of the action space',
                  reward_observation='2 reset layouts per configuration, agent at every cell of a 4x4 window x 4 headings x all actions',
                  reset='same symbolic draws for configurations up to 5x5; concrete seeds 0..4 beyond', shapes_layouts='entries in [-1, 3] plus non-integers'),
    'thorough': dict(files='same', transition='4x4 states', reward_observation='4 layouts, every cell', reset='same', shapes_layouts='same'),
}
OUTSIDE = 'PyYAML itself; gym.make (C20); files outside the YAML subset are reported as unread, never as passed'
ASSUMPTIONS = ['the hand assembly interprets a component entry as: registry[name] partially applied to the listed parameters the function accepts, with shape/layout/area/object_type/colors/distance_function/nested function entries turned into the corresponding objects']
STUBS = ['mini YAML reader', 'LazyRows', 'LazyAgent', 'SymRng/ReplayRng']
TIME_LIMIT = {'quick': 400, 'thorough': 1800}

if os.path.join(REPO, 'examples') not in sys.path:
    sys.path.insert(0, os.path.join(REPO, 'examples'))

REG = {
    'reset': RSF.reset_function_registry, 'transition': T.transition_function_registry, 'reward': RF.reward_function_registry,
    'terminating': TF.terminating_function_registry, 'observation': OF.observation_function_registry, 'visibility': VF.visibility_function_registry,
}
NESTED = {'transition_functions': 'transition', 'reward_functions': 'reward', 'terminating_functions': 'terminating', 'reward_function': 'reward',
          'visibility_function': 'visibility'}


def strip(name):
    if ':' in name:
        mod, name = name.split(':')
        importlib.import_module(mod)
    return name


def hand_value(k, v):
    if k == 'shape':
        return Shape(*v)
    if k == 'layout':
        return tuple(v)
    if k == 'area':
        return Area(tuple(v[0]), tuple(v[1]))
    if k == 'object_type':
        return grid_object_registry.from_name(strip(v))
    if k == 'colors':
        return {Color[n] for n in v}
    if k == 'distance_function':
        return {'manhattan': Position.manhattan_distance, 'euclidean': Position.euclidean_distance}[v]
    if k in NESTED:
        if isinstance(v, list):
            return [hand_component(NESTED[k], d) for d in v]
        return hand_component(NESTED[k], v)
    return v


def hand_component(kind, d):
    name = strip(d['name'])
    func = REG[kind][name]
    accepted = inspect.signature(func).parameters
    return partial(func, **{k: hand_value(k, v) for k, v in d.items() if k != 'name' and k in accepted})


def hand_env(data):
    reset_f = hand_component('reset', data['reset_function'])
    trans = partial(T.chain, transition_functions=[hand_component('transition', d) for d in data['transition_functions']])
    rew = partial(RF.reduce_sum, reward_functions=[hand_component('reward', d) for d in data['reward_functions']])
    obs_f = hand_component('observation', data['observation_function'])
    term = hand_component('terminating', data['terminating_function'])
    types = [grid_object_registry.from_name(strip(n)) for n in data['state_space']['objects']]
    otypes = [grid_object_registry.from_name(strip(n)) for n in data['observation_space']['objects']]
    st = reset_f(rng=np.random.default_rng(0))
    ob = obs_f(st, rng=np.random.default_rng(0))
    actions = [Action[n] for n in data['action_space']] if 'action_space' in data else list(Action)
    return GridWorld(StateSpace(st.grid.shape, types, [Color[n] for n in data['state_space']['colors']]), ActionSpace(actions),
                     ObservationSpace(ob.grid.shape, otypes, [Color[n] for n in data['observation_space']['colors']]), reset_f, trans, obs_f, rew, term)


def space_alphabet(space):
    return [e for e in SIGMA_FULL if type(e[1]()) in space.object_types and e[1]().color in space.colors and not e[0].startswith('Box')]


def files():
    return sorted(glob.glob(os.path.join(REPO, 'yaml', '*.yaml'))) + [os.path.join(REPO, 'examples', 'coin_env.yaml')]


_BUILT = {}


def built(path):
    """environments are built once per obligation process (they are pure functions of the file); mk_build rebuilds on every path"""
    if path not in _BUILT:
        _BUILT[path] = build_both(path)
    return _BUILT[path]


def build_both(path):
    data = load_file(path)
    keep = copy.deepcopy(data)
    reset_gv_debug(False)
    env_f = F.factory_env_from_data(data)
    return data, keep, env_f, hand_env(keep)


def mk_build(path):
    def h(sx):
        data, keep, env_f, env_h = build_both(path)
        sx.cover('build')
        sx.check(data == keep, 'building-leaves-the-input-data-unchanged')
        sx.check(env_f.state_space.grid_shape == env_h.state_space.grid_shape and env_f.state_space.object_types == env_h.state_space.object_types
                 and env_f.state_space.colors == env_h.state_space.colors, 'state-space-as-described')
        sx.check(list(env_f.action_space.actions) == list(env_h.action_space.actions), 'action-space-as-described')
        sx.check(env_f.observation_space.grid_shape == env_h.observation_space.grid_shape and env_f.observation_space.object_types == env_h.observation_space.object_types
                 and env_f.observation_space.colors == env_h.observation_space.colors, 'observation-space-as-described')
        env_2 = F.factory_env_from_data(data)
        for attr in ('_reset_function', '_transition_function', '_observation_function', '_reward_function', '_termination_function'):
            sx.check(describe(getattr(env_f, attr)) == describe(getattr(env_2, attr)), 'second-build-agrees', attr)
            sx.check(describe(getattr(env_f, attr)) == describe(getattr(env_h, attr)), 'components-and-parameters-as-described',
                     f'{attr}: {describe(getattr(env_f, attr))} vs {describe(getattr(env_h, attr))}')
    return h


def describe(f):
    """structural description of a (nested) partial: function identity + keywords"""
    if isinstance(f, partial):
        return (f.func.__module__ + '.' + f.func.__qualname__, tuple(describe(a) for a in f.args),
                tuple(sorted((k, describe(v)) for k, v in f.keywords.items())))
    if isinstance(f, (list, tuple)):
        return tuple(describe(x) for x in f)
    if isinstance(f, (set, frozenset)):
        return tuple(sorted(repr(x) for x in f))
    if isinstance(f, Area):
        return ('Area', tuple(f.ys), tuple(f.xs))
    if inspect.isfunction(f) or inspect.isclass(f) or inspect.ismethod(f):
        return f.__module__ + '.' + f.__qualname__
    return repr(f)


def mk_transition(path, H, W):
    def h(sx):
        data, keep, env_f, env_h = built(path)
        scanning = any(d['name'] in ('move_obstacles', 'teleport') for d in keep['transition_functions'])
        sigma = space_alphabet(env_f.state_space)
        hh, ww = (1, 3) if scanning else (H, W)
        S, world = lazy_state(sx, hh, ww, sigma, held_sigma=[e for e in sigma if e[0].startswith('Key')])
        S2 = fast_copy(S)
        a = sx.choice('a', list(env_f.action_space.actions))
        rng = SymRng(sx)
        n1 = T.transition_with_copy(env_f._transition_function, S, a, rng=rng)
        n2 = T.transition_with_copy(env_h._transition_function, S2, a, rng=ReplayRng(sx, rng.log))
        sx.cover('transition')
        states_equal(sx, n1, n2, 'built-dynamics-equal-hand-assembled-dynamics')
    return h


def mk_reward_observation(path, nlayouts, window):
    def h(sx):
        data, keep, env_f, env_h = built(path)
        k = int(sx.int('layout', 0, nlayouts - 1))
        base = env_h._reset_function(rng=np.random.default_rng(100 + k))
        H, W = base.grid.shape.height, base.grid.shape.width
        y = int(sx.int('y', 0, min(H, window) - 1))
        x = int(sx.int('x', 0, min(W, window) - 1))
        if window < H:  # the window follows the agent's start so that its surroundings are covered
            y = min(H - 1, max(0, int(base.agent.position.y) - window // 2 + y))
            x = min(W - 1, max(0, int(base.agent.position.x) - window // 2 + x))
        sx.assume(not base.grid[y, x].blocks_movement)
        base.agent.position = Position(y, x)
        base.agent.orientation = sx.choice('o', ORS)
        a = sx.choice('a', list(env_f.action_space.actions))
        s1, s2 = fast_copy(base), fast_copy(base)
        r1 = np.random.default_rng(5)
        r2 = np.random.default_rng(5)
        n1 = T.transition_with_copy(env_f._transition_function, s1, a, rng=r1)
        n2 = T.transition_with_copy(env_h._transition_function, s2, a, rng=r2)
        sx.cover('reward-observation')
        sx.check(full_state(n1) == full_state(n2), 'next-states-equal')
        sx.check(env_f._reward_function(s1, a, n1) == env_h._reward_function(s2, a, n2), 'rewards-equal')
        sx.check(bool(env_f._termination_function(s1, a, n1)) == bool(env_h._termination_function(s2, a, n2)), 'termination-flags-equal')
        o1 = env_f._observation_function(n1, rng=np.random.default_rng(9))
        o2 = env_h._observation_function(n2, rng=np.random.default_rng(9))
        sx.check(repr(o1.grid.objects) == repr(o2.grid.objects) and o1.agent == o2.agent, 'observations-equal')
        # through the assembled environments as well (seeded alike)
        env_f.set_seed(3)
        env_h.set_seed(3)
        out_f = env_f.functional_step(fast_copy(base), a)
        out_h = env_h.functional_step(fast_copy(base), a)
        sx.check(full_state(out_f[0]) == full_state(out_h[0]) and out_f[1] == out_h[1] and bool(out_f[2]) == bool(out_h[2]), 'functional-step-equal')
    return h


def mk_reset(path, symbolic):
    def h(sx):
        data, keep, env_f, env_h = built(path)
        sx.cover('reset')
        if symbolic:
            rng = SymRng(sx)
            s1 = env_f._reset_function(rng=rng)
            s2 = env_h._reset_function(rng=ReplayRng(sx, rng.log))
            sx.check(full_state(s1) == full_state(s2), 'same-draws-same-initial-state')
        else:
            seed = int(sx.int('seed', 0, 4))
            s1 = env_f._reset_function(rng=np.random.default_rng(seed))
            s2 = env_h._reset_function(rng=np.random.default_rng(seed))
            sx.check(full_state(s1) == full_state(s2), 'same-seed-same-initial-state')
            env_f.set_seed(seed)
            env_h.set_seed(seed)
            sx.check(full_state(env_f.functional_reset()) == full_state(env_h.functional_reset()), 'functional-reset-equal')
    return h


# ---------------------------------------------------------------------------
# factory(name, **kwargs)

FACTORIES = {'reset': RSF.factory, 'transition': T.factory, 'reward': RF.factory, 'terminating': TF.factory, 'observation': OF.factory, 'visibility': VF.factory}
PROTOCOL = {'reset': {'rng'}, 'transition': {'state', 'action', 'rng'}, 'reward': {'state', 'action', 'next_state', 'rng'},
            'terminating': {'state', 'action', 'next_state', 'rng'}, 'observation': {'state', 'rng'}, 'visibility': {'grid', 'position', 'rng'}}


def mk_factory(kind):
    def h(sx):
        names = [n for n in REG[kind].keys()] if hasattr(REG[kind], 'keys') else list(REG[kind])
        name = sx.choice('name', sorted(names))
        func = REG[kind][name]
        params = [p for p in inspect.signature(func).parameters.values() if p.name not in PROTOCOL[kind]]
        required = [p.name for p in params if p.default is inspect.Parameter.empty]
        kwargs = {}
        for i, p in enumerate(params):
            give = sx.choice(f'give_{p.name}', [True, False])
            if give:
                kwargs[p.name] = sx.real(f'v_{p.name}') if p.annotation is float else ('token', p.name)
        extra = sx.choice('extra', [False, True])
        if extra:
            kwargs['not_a_parameter'] = 1
        sx.cover('factory-' + kind)
        try:
            f = FACTORIES[kind](name, **kwargs)
        except ValueError:
            sx.check(any(r not in kwargs for r in required), 'ValueError-only-when-a-required-parameter-is-missing', f'{name} {sorted(kwargs)}')
            return
        sx.check(all(r in kwargs for r in required), 'missing-required-parameter-accepted', f'{name} {sorted(kwargs)}')
        sx.check(callable(f), 'factory-returns-a-callable')
        if isinstance(f, partial):  # the structural reading applies to partial applications only; behaviour is compared by the build-*/transition-* obligations
            sx.check(f.func is func, 'factory-returns-the-registered-function')
            exp = {k: v for k, v in kwargs.items() if k != 'not_a_parameter'}
            sx.check(set(f.keywords) == set(exp) and all(f.keywords[k] is exp[k] for k in exp), 'exactly-the-accepted-parameters-are-bound', f'{name}: {sorted(f.keywords)}')
            sx.check(not f.args, 'no-positional-binding')
        else:
            sx.cover('factory-result-not-a-partial (structural comparison skipped)')
    return h


YAML_FACTORIES = {'reset': F.factory_reset_function, 'transition': F.factory_transition_function, 'reward': F.factory_reward_function,
                  'terminating': F.factory_terminating_function, 'observation': F.factory_observation_function, 'visibility': F.factory_visibility_function}
# one YAML-style value per parameter name (what a configuration file would say)
CATALOGUE = {
    'shape': lambda: [7, 9], 'layout': lambda: [2, 3], 'area': lambda: [[-4, 0], [-2, 2]], 'object_type': lambda: 'Exit', 'colors': lambda: ['RED', 'BLUE'],
    'distance_function': lambda: 'euclidean', 'num_rivers': lambda: 2, 'num_obstacles': lambda: 3, 'num_beacons': lambda: 2, 'num_exits': lambda: 2,
    'random_agent': lambda: True, 'random_exit': lambda: True,
    'transition_functions': lambda: [{'name': 'move_agent'}, {'name': 'chain', 'transition_functions': [{'name': 'turn_agent'}, {'name': 'pickndrop'}]}],
    'reward_functions': lambda: [{'name': 'living_reward', 'reward': -0.5}, {'name': 'reduce_sum', 'reward_functions': [{'name': 'reach_exit', 'reward_on': 3.0},
                                                                                                                        {'name': 'overlap', 'object_type': 'Key'}]}],
    'terminating_functions': lambda: [{'name': 'reach_exit'}, {'name': 'reduce_all', 'terminating_functions': [{'name': 'bump_into_wall'}, {'name': 'overlap', 'object_type': 'Beacon'}]}],
    'visibility_function': lambda: {'name': 'partially_occluded'},
}


def mk_yaml_entry(kind):
    """a single configuration entry (any registered name, any subset of its optional parameters, nested entries included) handed to the
    YAML-level factory: the entry is left unchanged, a second build from the SAME object agrees, and both are the hand assembly"""
    def h(sx):
        names = sorted(REG[kind].keys() if hasattr(REG[kind], 'keys') else REG[kind])
        name = sx.choice('name', names)
        func = REG[kind][name]
        params = [p for p in inspect.signature(func).parameters.values() if p.name not in PROTOCOL[kind]]
        data = {'name': name}
        for prm in params:
            required = prm.default is inspect.Parameter.empty
            if prm.name not in CATALOGUE and not prm.name.startswith('reward'):
                if required:
                    sx.assume(False)  # not expressible in a configuration file (e.g. a python callable)
                continue
            if required or sx.choice(f'give_{prm.name}', [True, False]):
                data[prm.name] = CATALOGUE[prm.name]() if prm.name in CATALOGUE else 2.5
        pristine = copy.deepcopy(data)
        sx.cover('yaml-entry-' + kind)
        first = YAML_FACTORIES[kind](data)
        sx.check(data == pristine, 'building-leaves-the-entry-unchanged', f'{pristine} became {data}')
        second = YAML_FACTORIES[kind](data)
        sx.check(data == pristine, 'second-build-leaves-the-entry-unchanged', f'{pristine} became {data}')
        hand = hand_component(kind, pristine)
        sx.check(describe(first) == describe(second), 'second-build-from-the-same-entry-agrees', f'{describe(first)} vs {describe(second)}')
        if isinstance(first, partial):
            sx.check(describe(first) == describe(hand), 'entry-builds-the-named-component-with-the-given-parameters', f'{describe(first)} vs {describe(hand)}')
    return h


def h_factory_unknown(sx):
    kind = sx.choice('kind', sorted(FACTORIES))
    sx.cover('unknown-name')
    try:
        FACTORIES[kind]('no_such_component', shape=Shape(4, 4))
    except ValueError:
        sx.check(True, 'unknown-name-rejected')
    else:
        sx.fail('unknown-name-accepted')


def h_shape_layout(sx):
    from schema import SchemaError
    which = sx.choice('which', ['shape', 'layout'])
    form = sx.choice('form', ['pair', 'single', 'triple', 'float', 'string', 'none', 'nested'])
    a = int(sx.int('a', -1, 3))
    b = int(sx.int('b', -1, 3))
    value = {'pair': [a, b], 'single': [a], 'triple': [a, b, 1], 'float': [a + 0.5, b], 'string': [str(a), b], 'none': None, 'nested': [[a, b]]}[form]
    valid = form == 'pair' and a > 0 and b > 0
    fn = F.factory_shape if which == 'shape' else F.factory_layout
    sx.cover('valid' if valid else 'invalid')
    try:
        out = fn(value)
    except (SchemaError, ValueError, TypeError) as e:
        sx.check(not valid, 'valid-pair-rejected', repr(value))
        sx.check(isinstance(e, (SchemaError, ValueError)), 'rejected-with-schema-or-value-error', f'{type(e).__name__} for {value!r}')
    else:
        sx.check(valid, 'malformed-entry-accepted', repr(value))
        sx.check((out == Shape(a, b)) if which == 'shape' else (tuple(out) == (a, b)), 'value-preserved')


# ---------------------------------------------------------------------------
# concrete side checks


def side_files():
    def f():
        bad, cases = [], 0
        import gym_gridverse.gym as G
        for p in sorted(glob.glob(os.path.join(REPO, 'yaml', '*.yaml'))):
            q = os.path.join(REPO, 'gym_gridverse', 'registered_envs', os.path.basename(p))
            cases += 1
            if not os.path.exists(q) or open(p, 'rb').read() != open(q, 'rb').read():
                bad.append(dict(label='packaged-copy-differs', message=os.path.basename(p), inputs=dict(inputs={}, notes={})))
        for key, fn in G.STRING_TO_YAML_FILE.items():
            cases += 1
            path = os.path.join(REPO, 'gym_gridverse', 'registered_envs', fn)
            if not os.path.exists(path):
                bad.append(dict(label='registered-id-without-file', message=f'{key} -> {fn}', inputs=dict(inputs={}, notes={})))
                continue
            try:
                F.factory_env_from_data(load_file(path))
            except Exception as e:
                bad.append(dict(label='registered-id-does-not-build', message=f'{key}: {e!r}', inputs=dict(inputs={}, notes={})))
        return dict(cases=cases, violations=bad[:5], detail='packaged copies byte-identical to yaml/, every registered id points to an existing packaged file that validates and builds')
    return f


def side_corruptions():
    from schema import SchemaError

    def f():
        bad, cases = [], 0
        base = load_file(os.path.join(REPO, 'yaml', 'gv_keydoor.5x5.yaml'))

        def entry_with(entries, key):
            return next(e for e in entries if key in e)

        def mut(fn):
            d = copy.deepcopy(base)
            fn(d)
            return d

        muts = {
            'unknown-reset-name': lambda d: d['reset_function'].__setitem__('name', 'keydoorr'),
            'unknown-transition-name': lambda d: d['transition_functions'][0].__setitem__('name', 'move_agnt'),
            'unknown-reward-name': lambda d: d['reward_functions'][0].__setitem__('name', 'reach_exitt'),
            'unknown-observation-name': lambda d: d['observation_function'].__setitem__('name', 'partialy_occluded'),
            'unknown-terminating-name': lambda d: d['terminating_function'].__setitem__('name', 'reach'),
            'missing-reset-shape': lambda d: d['reset_function'].pop('shape'),
            'missing-object_type': lambda d: entry_with(d['reward_functions'], 'object_type').pop('object_type'),
            'missing-area': lambda d: d['observation_function'].pop('area'),
            'shape-not-a-pair': lambda d: d['reset_function'].__setitem__('shape', [5]),
            'shape-negative': lambda d: d['reset_function'].__setitem__('shape', [5, -5]),
            'shape-float': lambda d: d['reset_function'].__setitem__('shape', [5.0, 5]),
            'unknown-colour': lambda d: d['state_space'].__setitem__('colors', ['NONE', 'PINK']),
            'duplicate-colour': lambda d: d['state_space'].__setitem__('colors', ['NONE', 'NONE']),
            'empty-objects': lambda d: d['state_space'].__setitem__('objects', []),
            'unknown-object': lambda d: d['state_space'].__setitem__('objects', ['Wall', 'Flor']),
            'unknown-action': lambda d: d.__setitem__('action_space', ['MOVE_FORWARD', 'JUMP']),
            'duplicate-action': lambda d: d.__setitem__('action_space', ['MOVE_FORWARD', 'MOVE_FORWARD']),
            'empty-transitions': lambda d: d.__setitem__('transition_functions', []),
            'missing-section': lambda d: d.pop('terminating_function'),
            'unknown-section': lambda d: d.__setitem__('termination_function', {'name': 'reach_exit'}),
            'unknown-distance': lambda d: entry_with(d['reward_functions'], 'distance_function').__setitem__('distance_function', 'chebyshev'),
        }
        for name, fn in muts.items():
            cases += 1
            try:
                F.factory_env_from_data(mut(fn))
            except (SchemaError, ValueError):
                continue
            except Exception as e:
                bad.append(dict(label='corruption-fails-differently', message=f'{name}: {type(e).__name__}: {e}', inputs=dict(inputs={}, notes={})))
            else:
                bad.append(dict(label='corruption-accepted', message=name, inputs=dict(inputs={}, notes={})))
        return dict(cases=cases, violations=bad[:5], detail=f'{len(muts)} systematic corruptions of gv_keydoor.5x5.yaml must raise SchemaError or ValueError')
    return f


def obligations(tier):
    q = tier == 'quick'
    obs = []
    small = ('gv_empty.4x4', 'gv_crossing.5x5', 'gv_keydoor.5x5', 'gv_memory.5x5', 'gv_teleport.5x5')
    for path in files():
        base = os.path.basename(path)[:-5]
        obs.append(Obligation(f'build-{base}', mk_build(path), dict(file=os.path.relpath(path, REPO))))
        obs.append(Obligation(f'transition-{base}', mk_transition(path, 3, 3) if q else mk_transition(path, 4, 4), dict(file=os.path.relpath(path, REPO))))
        obs.append(Obligation(f'reward-observation-{base}', mk_reward_observation(path, 2 if q else 4, 4 if q else 99), dict(file=os.path.relpath(path, REPO))))
        obs.append(Obligation(f'reset-{base}', mk_reset(path, base in small), dict(file=os.path.relpath(path, REPO), draws='symbolic' if base in small else 'seeds 0..4')))
    for kind in FACTORIES:
        obs.append(Obligation(f'factory-{kind}', mk_factory(kind), dict(registry=kind)))
    for kind in YAML_FACTORIES:
        obs.append(Obligation(f'yaml-entry-{kind}', mk_yaml_entry(kind), dict(registry=kind, parameters='any subset of the optional ones; nested entries two levels deep')))
    obs.append(Obligation('factory-unknown-name', h_factory_unknown))
    obs.append(Obligation('shape-layout-entries', h_shape_layout))
    obs.append(Obligation('side-files-and-ids', side_files(), kind='concrete'))
    obs.append(Obligation('side-corruptions', side_corruptions(), kind='concrete'))
    return obs
