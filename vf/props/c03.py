"""C03 The functional interface is pure, alias-free and history-independent."""
from functools import partial

import numpy as np

from gym_gridverse.action import Action
from gym_gridverse.agent import Agent
from gym_gridverse.debugging import reset_gv_debug
from gym_gridverse.envs import observation_functions as OF
from gym_gridverse.envs import reward_functions as RF
from gym_gridverse.envs import terminating_functions as TF
from gym_gridverse.envs.transition_functions import transition_with_copy
from gym_gridverse.geometry import Area, Orientation, Position, Shape
from gym_gridverse.grid import Grid
from gym_gridverse.grid_object import (Beacon, Box, Color, Door, Exit, Floor, Key,
                                       MovingObstacle, NoneGridObject, Telepod,
                                       Wall)
from gym_gridverse.state import State
from gym_gridverse.utils import raytracing as RT
from gym_gridverse.utils.fast_copy import fast_copy

from ..runner import Obligation
from ..stubs import (SIGMA_2C, SIGMA_FULL, SymRng, lazy_state, pre_held,
                     same_object)
from ..symx import sym_and
from .c01 import LOCAL_REWARDS, LOCAL_TERMS, make_env, ALL_TYPES, trivial_termination
from .common import ACTIONS, CHAINS, SINGLE, held_touched, post_cells, shapes, transition

PROPERTY = 'C03'
LEVEL = 'other'
SCOPE = ('functional_step / functional_observation / every local reward and termination component on lazily symbolic states: the input is '
         'never written to and every cell it materialised keeps its content; the returned next state shares no mutable object with the input; '
         'fast_copy(S) equals and hashes like S and shares nothing; memoised helpers (dijkstra lru_cache(10), cached ray fans) answer the same '
         'question equally after a symbolic choice of intervening calls that evict / collide, and equal a fresh uncached computation')
BOUNDS = {
    'quick': dict(whole_grid_views='1x3 world/1x3 view (any pose), 2x3 world/2x3 view at the pose where they coincide (3 objects); the same shortest-path question after a question on a grid of another shape (2x6, 3x4, 4x3, 6x2)', step='every built-in transition function and shipped chain, shapes 1x1..2x2, 1x3, 3x1, 33-object alphabet incl. nested boxes, any held item',
                  observation='4 observation functions, worlds 2x2, views 2x3 / 3x3, 6-object alphabet', rewards='7 local rewards, 4 terminations on shapes <=2x2; 5 scanning rewards on 2x2 under their preconditions',
                  copy='shapes 1x1, 1x2 over a 9-object alphabet (2x2: 5 objects) with Box(Box(Floor)), Box(Key), doors of 3 statuses; held item of the same alphabet',
                  history='question = getting_closer_shortest_path / raytracing on 3x3; intervening menu: 0..12 other layouts (>= 11 evict the cache), same layout with '
                          'another source, other ray origins and areas; symbolic choice of the sequence (length <= 2 from the menu; the eviction block asks 12 further layouts)'),
    'thorough': dict(step='shapes up to 3x3, 42-object alphabet', observation='worlds up to 2x3 (2x3 over 4 objects)', rewards='shapes <=3x3', copy='plus 1x3, 3x1', history='sequence length <= 4'),
}
OUTSIDE = ('aliasing among cells the path never read rests on the LazyRows copy contract (pickle of plain lists is a deep copy): concrete Python, not a solver verdict; '
           'scanning rewards are covered on 2x2 (2x3) structured states only')
ASSUMPTIONS = ['immutable values (Position, enum members, numbers) may be shared', 'observations may (and do) reference the state\'s cell objects; only containers must be fresh']
STUBS = ['LazyRows (records writes)', 'LazyAgent', 'SymRng']
TIME_LIMIT = {'quick': 300, 'thorough': 1800}


def reach(o, acc):
    """ids of the objects with changeable state (door status, box content) reachable from a cell/held object; objects without any
    changeable field (Floor, Wall, Key, ...) may be shared without either state being able to affect the other"""
    if o is None:
        return
    if isinstance(o, (Door, Box)):
        acc[id(o)] = o
    if isinstance(o, Box):
        reach(o.content, acc)


def mutable_ids(st):
    acc = {id(st): st, id(st.grid): st.grid, id(st.grid.objects): st.grid.objects, id(st.agent): st.agent, id(st.agent.transform): st.agent.transform}
    for k, o in post_cells(st).items():
        reach(o, acc)
    if held_touched(st):
        g = st.agent.grid_object
        if not isinstance(g, NoneGridObject):
            reach(g, acc)
    return acc


def input_untouched(sx, state, world, pose0, lab):
    rows = state.grid.objects
    sx.check(not rows.writes, lab + '-no-write-into-input-grid', repr(rows.writes))
    for k, o in rows.cells.items():
        sx.check(same_object(o, world.make(*k)), lab + '-input-cell-keeps-content', f'{k}: {o!r}')
    sx.check(sym_and(state.agent.position.y == pose0[0], state.agent.position.x == pose0[1]) and state.agent.orientation is pose0[2],
             lab + '-input-pose-unchanged')
    if state.agent.held_touched():
        h0 = pre_held()
        g = state.agent.grid_object
        sx.check((h0 is None and isinstance(g, NoneGridObject)) or (h0 is not None and same_object(g, h0)), lab + '-input-held-unchanged', repr(g))


def mk_step(fname, H, W, sigma):
    def h(sx):
        reset_gv_debug(False)
        env = make_env(H, W, ALL_TYPES, set(Color), fname, reward=LOCAL_REWARDS['living_reward'], termination=trivial_termination())
        env._rng = SymRng(sx)
        state, world = lazy_state(sx, H, W, sigma)
        a = sx.choice('a', ACTIONS)
        pose0 = (state.agent.position.y, state.agent.position.x, state.agent.orientation)
        nxt, reward, done = env.functional_step(state, a)
        sx.cover('step')
        input_untouched(sx, state, world, pose0, 'step')
        a_ids, b_ids = mutable_ids(state), mutable_ids(nxt)
        inst = []
        for o in post_cells(nxt).values():
            while True:
                if isinstance(o, (Door, Box)):  # objects with mutable state; sharing stateless ones is harmless
                    inst.append(id(o))
                if not isinstance(o, Box):
                    break
                o = o.content
        sx.check(len(set(inst)) == len(inst), 'stateful-cells-of-the-next-state-are-distinct-instances')
        shared = set(a_ids) & set(b_ids)
        sx.check(not shared, 'next-state-shares-no-mutable-object-with-input', repr([a_ids[i] for i in shared][:3]))
        # changing the next state afterwards cannot affect the input (and vice versa): spot-check on doors
        for k, o in post_cells(nxt).items():
            if isinstance(o, Door) and k in state.grid.objects.cells:
                old = state.grid.objects.cells[k].state
                o.state = Door.Status.OPEN if old is not Door.Status.OPEN else Door.Status.CLOSED
                sx.check(state.grid.objects.cells[k].state is old, 'mutating-next-state-leaves-input-alone')
    return h


OBS6 = [e for e in SIGMA_2C if e[0] in ('Floor', 'Wall', 'Door(OPEN,YELLOW)', 'Door(LOCKED,YELLOW)', 'Key(YELLOW)', 'Box(Floor)')]


def mk_observation(fname, H, W, area, pin=None, sigma=None):
    sigma = OBS6 if sigma is None else sigma

    def h(sx):
        from ..stubs import ORS
        state, world = lazy_state(sx, H, W, sigma, held_sigma=sigma, orientations=ORS if pin is None else [pin[2]])
        if pin is not None:
            sx.assume(sym_and(state.agent.position.y == pin[0], state.agent.position.x == pin[1]))
        pose0 = (state.agent.position.y, state.agent.position.x, state.agent.orientation)
        ob = getattr(OF, fname)(state, area=area, rng=SymRng(sx))
        sx.cover('observation')
        input_untouched(sx, state, world, pose0, 'observation')
        sx.check(ob.grid is not state.grid and ob.grid.objects is not state.grid.objects, 'observation-grid-is-a-fresh-container')
        sx.check(len({id(r) for r in ob.grid.objects}) == len(ob.grid.objects), 'observation-rows-are-distinct-containers')
        sx.check(ob.agent is not state.agent and ob.agent.transform is not state.agent.transform, 'observed-agent-is-a-fresh-object')
        # writing into the observation afterwards does not reach the state
        ob.grid[0, 0] = Wall()
        ob.agent.position = Position(0, 0)
        sx.check(not state.grid.objects.writes, 'writing-the-observation-does-not-write-the-state')
        sx.check(sym_and(state.agent.position.y == pose0[0], state.agent.position.x == pose0[1]), 'moving-the-observed-agent-does-not-move-the-agent')
    return h


def mk_reward(name, f, H, W, sigma, is_term):
    def h(sx):
        state, world = lazy_state(sx, H, W, sigma)
        a = sx.choice('a', ACTIONS)
        pose0 = (state.agent.position.y, state.agent.position.x, state.agent.orientation)
        nxt = transition_with_copy(transition('chain[move,turn,actuate_door,actuate_box,pickndrop]'), state, a)
        before = {k: repr(o) for k, o in post_cells(nxt).items()}
        npose = (nxt.agent.position.y, nxt.agent.position.x, nxt.agent.orientation)
        nwrites = list(getattr(nxt.grid.objects, 'writes', []))
        f(state, a, nxt)
        sx.cover('component')
        input_untouched(sx, state, world, pose0, name + '-state')
        sx.check(getattr(nxt.grid.objects, 'writes', []) == nwrites, name + '-no-write-into-next-state')
        sx.check(all(repr(post_cells(nxt)[k]) == v for k, v in before.items()), name + '-next-state-cells-unchanged')
        sx.check(sym_and(nxt.agent.position.y == npose[0], nxt.agent.position.x == npose[1]) and nxt.agent.orientation is npose[2], name + '-next-pose-unchanged')
    return h


def mk_scanning_reward(kind, H, W):
    """the scanning rewards (distance shaping, memory) only read: no write into either state, cells keep their content"""
    from .c12 import F1, FW, MEM
    bg = {'shortest_path': FW, 'memory': MEM}.get(kind, F1)

    def h(sx):
        state, world = lazy_state(sx, H, W, bg, held_sigma=[])
        if kind == 'memory':
            cells = [world.make(y, x) for y in range(H) for x in range(W)]
            sx.assume(any(isinstance(c, Beacon) for c in cells))
        else:
            ey = int(sx.int('ey', 0, H - 1))
            ex = int(sx.int('ex', 0, W - 1))
            world.fixed[(ey, ex)] = Exit
        a = sx.choice('a', [Action.MOVE_FORWARD, Action.MOVE_LEFT, Action.TURN_RIGHT])
        pose0 = (state.agent.position.y, state.agent.position.x, state.agent.orientation)
        nxt = transition_with_copy(transition('chain[move,turn]'), state, a)
        f = {'manhattan': partial(RF.getting_closer, object_type=Exit), 'euclidean': partial(RF.getting_closer, object_type=Exit, distance_function=Position.euclidean_distance),
             'proportional': partial(RF.proportional_to_distance, object_type=Exit), 'shortest_path': partial(RF.getting_closer_shortest_path, object_type=Exit),
             'memory': RF.reach_exit_memory}[kind]
        before = {k: repr(o) for k, o in post_cells(nxt).items()}
        nw = list(getattr(nxt.grid.objects, 'writes', []))
        r1 = f(state, a, nxt)
        r2 = f(state, a, nxt)
        sx.cover('scanning-' + kind)
        input_untouched(sx, state, world, pose0, kind + '-state')
        sx.check(getattr(nxt.grid.objects, 'writes', []) == nw and all(repr(post_cells(nxt)[k]) == v for k, v in before.items()), kind + '-next-state-untouched')
        sx.check(r1 == r2, kind + '-same-answer-twice')
    return h


COPY9 = [e for e in SIGMA_2C if e[0] in ('Floor', 'Wall', 'Door(OPEN,YELLOW)', 'Door(CLOSED,NONE)', 'Door(LOCKED,YELLOW)', 'Key(YELLOW)',
                                        'Box(Key(YELLOW))', 'Box(Box(Floor))', 'Telepod(NONE)')]


COPY5 = [e for e in COPY9 if e[0] in ('Floor', 'Door(LOCKED,YELLOW)', 'Key(YELLOW)', 'Box(Key(YELLOW))', 'Box(Box(Floor))')]


def mk_copy(H, W):
    def h(sx):
        sg = COPY9 if H * W <= 2 else COPY5
        state, world = lazy_state(sx, H, W, sg, held_sigma=sg, orientations=[Orientation.F, Orientation.L])
        cp = fast_copy(state)
        sx.cover('copy')
        sx.check(cp is not state, 'copy-is-a-new-object')
        eq = (cp == state)
        sx.check(bool(eq), 'copy-equals-original')
        sx.check(hash(cp) == hash(state), 'copy-hashes-like-original')
        sx.check(cp.grid == state.grid and hash(cp.grid) == hash(state.grid) and cp.agent == state.agent and hash(cp.agent) == hash(state.agent),
                 'components-equal-and-hash-alike')
        # deep structural equality, cell by cell (GridObject.__eq__ does not look into boxes)
        for y in range(H):
            for x in range(W):
                sx.check(same_object(cp.grid.objects[y][x], state.grid.objects[y][x]), 'copy-cell-deep-equal')
        g0, g1 = state.agent.grid_object, cp.agent.grid_object
        sx.check(same_object(g0, g1), 'copy-held-deep-equal')
        shared = set(mutable_ids(state)) & set(mutable_ids(cp))
        sx.check(not shared, 'copy-shares-no-mutable-object')
    return h


def mk_hash_history(H, W):
    """equal states hash alike whatever was asked before: the next state of an input that had been hashed (or compared, or used
    as a dictionary key) equals and hashes like the next state of a never-touched equal input"""
    def h(sx):
        reset_gv_debug(False)
        sg = COPY9 if H * W <= 2 else [e for e in COPY9 if e[0] in ('Floor', 'Door(CLOSED,NONE)', 'Box(Key(YELLOW))')]
        state, world = lazy_state(sx, H, W, sg, held_sigma=[e for e in COPY9 if e[0].startswith('Key')], orientations=[Orientation.F, Orientation.L])
        env = make_env(H, W, ALL_TYPES, set(Color), 'chain[move,turn,actuate_door,actuate_box,pickndrop]', reward=LOCAL_REWARDS['living_reward'],
                       termination=trivial_termination())
        untouched = fast_copy(state)
        before = sx.choice('before', ['hash', 'dict-key', 'eq', 'nothing'])
        if before == 'hash':
            hash(state), hash(state.grid), hash(state.agent)
        elif before == 'dict-key':
            {state: 1}[state]
        elif before == 'eq':
            state == fast_copy(state)
        a = sx.choice('a', ACTIONS)
        n1, _, _ = env.functional_step(state, a)
        n2, _, _ = env.functional_step(untouched, a)
        sx.cover('hash-history-' + before)
        sx.check(n1 == n2, 'same-step-same-next-state')
        sx.check(hash(n1) == hash(n2) and hash(n1.grid) == hash(n2.grid) and hash(n1.agent) == hash(n2.agent), 'equal-next-states-hash-alike-whatever-was-hashed-before')
        sx.check(len({n1, n2}) == 1 and n2 in {n1: 0}, 'equal-states-are-one-dictionary-key')
        sx.check(hash(state) == hash(untouched) and state == untouched, 'input-still-equals-and-hashes-like-its-untouched-copy')
    return h


# ---------------------------------------------------------------------------
# history independence of the memoised helpers


def layout_state(rows, agent, exit_at):
    mk = {'.': Floor, '#': Wall}
    g = Grid([[mk[c]() for c in r] for r in rows])
    g[exit_at] = Exit()
    return State(g, Agent(Position(*agent), Orientation.F))


BASE = ['...', '.#.', '...']
OTHERS = [['...', '...', '...'], ['#..', '...', '...'], ['.#.', '...', '...'], ['..#', '...', '...'], ['...', '#..', '...'], ['...', '..#', '...'],
          ['...', '...', '#..'], ['...', '...', '.#.'], ['...', '...', '..#'], ['##.', '...', '...'], ['.##', '...', '...'], ['#.#', '...', '...'],
          ['...', '#.#', '...']]


def h_history_dijkstra(sx):
    """same question, same answer, whatever was asked in between; cached tables equal fresh ones"""
    ay = int(sx.int('qy', 0, 2))
    ax = int(sx.int('qx', 0, 2))
    sx.assume((ay, ax) != (1, 1) and (ay, ax) != (2, 2))
    a = sx.choice('a', [Action.MOVE_FORWARD, Action.MOVE_BACKWARD, Action.MOVE_LEFT, Action.MOVE_RIGHT])
    s0 = layout_state(BASE, (ay, ax), (2, 2))
    s1 = transition_with_copy(transition('move_agent'), s0, a)
    q = partial(RF.getting_closer_shortest_path, object_type=Exit, reward_closer=1.0, reward_further=-1.0)
    getattr(RF.dijkstra, 'cache_clear', lambda: None)()
    first = q(s0, a, s1)
    # intervening calls: a symbolic sequence from the menu
    n = int(sx.int('n', 0, 2))
    for i in range(n):
        kind = sx.choice(f'k{i}', ['other-source', 'other-layout', 'evict', 'rays'])
        if kind == 'other-source':  # same layout, exit elsewhere (same walls => a cache keyed too coarsely collides)
            ey = int(sx.int(f'ey{i}', 0, 2))
            ex = int(sx.int(f'ex{i}', 0, 2))
            sx.assume((ey, ex) != (1, 1) and (ey, ex) != (ay, ax))
            t0 = layout_state(BASE, (ay, ax), (ey, ex))
            q(t0, a, transition_with_copy(transition('move_agent'), t0, a))
        elif kind == 'other-layout':
            j = int(sx.int(f'l{i}', 0, len(OTHERS) - 1))
            if OTHERS[j][ay][ax] == '#' or OTHERS[j][2][2] == '#':
                sx.assume(False)
            t0 = layout_state(OTHERS[j], (ay, ax), (2, 2))
            q(t0, a, transition_with_copy(transition('move_agent'), t0, a))
        elif kind == 'evict':  # more distinct layouts than the cache holds
            for rows in OTHERS:
                if rows[0][0] == '#':
                    continue
                t0 = layout_state(rows, (0, 0), (2, 2)) if rows[2][2] != '#' else layout_state(rows, (0, 0), (2, 1))
                q(t0, Action.MOVE_RIGHT, transition_with_copy(transition('move_agent'), t0, Action.MOVE_RIGHT))
        else:
            RT.cached_compute_rays_fancy(Position(ay, ax), Area((0, 2), (0, 2)))
    again = q(s0, a, s1)
    sx.cover('history')
    sx.check(again == first, 'same-question-same-answer', f'{first} then {again}')
    layout = tuple(tuple(c != '#' for c in r) for r in BASE)
    cached = RF.dijkstra(layout, (2, 2))
    uncached = getattr(RF.dijkstra, '__wrapped__', None)
    if uncached is not None:
        sx.check(np.array_equal(cached, uncached(layout, (2, 2))), 'cached-distance-table-equals-fresh-computation')
    # a caller writing into a returned table must not poison later answers
    third = q(s0, a, s1)
    sx.check(third == first, 'third-answer-equal')


def h_history_rays(sx):
    from .obs_common import make_world, observe
    oy = int(sx.int('oy', 0, 2))
    ox = int(sx.int('ox', 0, 2))
    area = Area((0, 2), (0, 2))
    getattr(RT.cached_compute_rays_fancy, 'cache_clear', lambda: None)()
    first = RT.cached_compute_rays_fancy(Position(oy, ox), area)
    snapshot = [[(p.y, p.x) for p in ray] for ray in first]
    n = int(sx.int('n', 0, 2))
    for i in range(n):
        kind = sx.choice(f'k{i}', ['other-origin', 'other-area', 'observe'])
        if kind == 'other-origin':
            RT.cached_compute_rays_fancy(Position(int(sx.int(f'y{i}', 0, 2)), int(sx.int(f'x{i}', 0, 2))), area)
        elif kind == 'other-area':
            RT.cached_compute_rays_fancy(Position(0, 0), Area((0, int(sx.int(f'h{i}', 0, 3))), (0, 2)))
        else:
            toks = make_world(sx, 3, 3, prefix=f'w{i}_')
            for r in toks:
                for t in r:
                    t.force(False)
            toks[1][1].force(True)
            observe('raytracing', toks, (oy, ox, Orientation.F), Area((-oy, 2 - oy), (-ox, 2 - ox)))
    again = RT.cached_compute_rays_fancy(Position(oy, ox), area)
    fresh = RT.compute_rays_fancy(Position(oy, ox), area)
    sx.cover('ray-history')
    sx.check([[(p.y, p.x) for p in ray] for ray in again] == snapshot, 'cached-ray-fan-unchanged-by-history')
    sx.check([[(p.y, p.x) for p in ray] for ray in fresh] == snapshot, 'cached-ray-fan-equals-fresh-computation')


def obligations(tier):
    q = tier == 'quick'
    # plus an object with changeable state two levels deep in boxes (a copy that clones contents one level deep shares it)
    sigma = list(SIGMA_2C if q else SIGMA_FULL) + [('Box(Box(Door(CLOSED,YELLOW)))', lambda: Box(Box(Door(Door.Status.CLOSED, Color.YELLOW))))]
    obs = []
    shp = shapes(2, 2) + [(1, 3), (3, 1)] if q else shapes(3, 3)
    for fname in list(SINGLE) + list(CHAINS):
        scan = fname in ('move_obstacles', 'teleport')
        for (H, W) in shp:
            if scan and H * W > 3:
                continue
            s = [e for e in sigma if e[0] in ('Floor', 'Wall', 'MovingObstacle', 'Telepod(NONE)', 'Telepod(YELLOW)')] if scan else sigma
            obs.append(Obligation(f'step-{fname}-{H}x{W}', mk_step(fname, H, W, s), dict(function=fname, H=H, W=W, alphabet=len(s))))
    for fname in ('fully_transparent', 'partially_occluded', 'raytracing', 'stochastic_raytracing'):
        for (H, W) in ([(2, 2)] if q else [(2, 2), (2, 3)]):
            for area in ([Area((0, 0), (-1, 1))] if fname == 'stochastic_raytracing' else [Area((-1, 0), (-1, 1)), Area((-2, 0), (-1, 1))]):
                sg = None if H * W <= 4 else [e for e in OBS6 if e[0] in ('Floor', 'Wall', 'Door(LOCKED,YELLOW)', 'Box(Floor)')]  # 6 cells: 4 objects
                obs.append(Obligation(f'observation-{fname}-{H}x{W}-view{area.height}x{area.width}', mk_observation(fname, H, W, area, None, sg),
                                      dict(function=fname, H=H, W=W, view=[area.height, area.width], alphabet=6 if sg is None else 4)))
        # a view that coincides with the whole grid for one pose (where a sub-grid could be the grid itself)
        from gym_gridverse.geometry import Orientation as _O
        for (H, W, area, pin) in [(1, 3, Area((0, 0), (-1, 1)), None), (2, 3, Area((-1, 0), (-1, 1)), (1, 1, _O.F))] + ([] if q else [(3, 3, Area((-2, 0), (-1, 1)), (2, 1, _O.F))]):
            if fname == 'stochastic_raytracing' and H > 1:
                continue
            obs.append(Obligation(f'observation-{fname}-{H}x{W}-view-as-large-as-the-grid', mk_observation(fname, H, W, area, pin, None if H == 1 else [e for e in OBS6 if e[0] in ('Floor', 'Wall', 'Door(LOCKED,YELLOW)')]),
                                  dict(function=fname, H=H, W=W, view=[area.height, area.width], pose='any' if pin is None else 'the one where view and grid coincide', alphabet=6 if H == 1 else 3)))
    small = [e for e in sigma if e[0] in ('Floor', 'Wall', 'Exit(NONE)', 'Key(YELLOW)', 'MovingObstacle', 'Door(OPEN,YELLOW)', 'Door(LOCKED,YELLOW)', 'Telepod(YELLOW)', 'Box(Floor)')]
    for (H, W) in ([(1, 2), (2, 2)] if q else shapes(2, 2) + [(3, 3)]):
        for rn, r in LOCAL_REWARDS.items():
            obs.append(Obligation(f'reward-{rn}-{H}x{W}', mk_reward(rn, r, H, W, small, False), dict(component=rn, H=H, W=W)))
        for tn, t in LOCAL_TERMS.items():
            obs.append(Obligation(f'termination-{tn}-{H}x{W}', mk_reward(tn, t, H, W, small, True), dict(component=tn, H=H, W=W)))
    for (H, W) in ([(1, 1), (1, 2), (2, 2)] if q else [(1, 1), (1, 2), (2, 2), (1, 3), (3, 1)]):
        obs.append(Obligation(f'copy-{H}x{W}', mk_copy(H, W), dict(H=H, W=W, alphabet=[e[0] for e in COPY9])))
    for (H, W) in ([(1, 2), (2, 2)] if q else [(1, 2), (2, 2), (1, 3), (3, 1)]):
        obs.append(Obligation(f'hash-history-{H}x{W}', mk_hash_history(H, W), dict(H=H, W=W)))
    for kind in ('manhattan', 'euclidean', 'proportional', 'shortest_path', 'memory'):
        for (H, W) in ([(2, 2)] if q else ([(2, 2)] if kind == 'memory' else [(2, 2), (2, 3)])):
            obs.append(Obligation(f'scanning-reward-{kind}-{H}x{W}', mk_scanning_reward(kind, H, W), dict(component=kind, H=H, W=W)))
    obs.append(Obligation('history-dijkstra', h_history_dijkstra))
    obs.append(Obligation('history-rays', h_history_rays))
    from .c12 import h_shortest_path_other_shapes
    obs.append(Obligation('history-shortest-path-after-a-question-on-another-shape', h_shortest_path_other_shapes,
                          dict(shapes='2x6, 3x4, 4x3, 6x2 with equal row-major walkability')))
    return obs
