"""C12 Rewards and termination mean what they say, and agree with each other."""
import math
from collections import deque
from functools import partial

from gym_gridverse.action import Action
from gym_gridverse.debugging import reset_gv_debug
from gym_gridverse.envs import reward_functions as RF
from gym_gridverse.envs import terminating_functions as TF
from gym_gridverse.envs.gridworld import GridWorld
from gym_gridverse.envs.transition_functions import transition_with_copy
from gym_gridverse.geometry import Position, Shape
from gym_gridverse.grid_object import (Beacon, Box, Color, Door, Exit, Floor, Key,
                                       MovingObstacle, NoneGridObject, Telepod,
                                       Wall)
from gym_gridverse.spaces import ActionSpace, ObservationSpace, StateSpace
from gym_gridverse.state import State

from ..runner import Obligation
from ..stubs import (ORS, SIGMA_2C, SIGMA_FULL, LazyAgent, LazyRows, SymRng, World, _LAZY,
                     lazy_grid, lazy_state, pre_held, same_object)
from ..symx import SymBool, SymReal, sym_and, sym_ite, sym_not, sym_or
from .common import (ACTIONS, MOVE_UNIT, TURNS, blocks_movement, rot, shapes,
                     transition)

PROPERTY = 'C12'
LEVEL = 'other'
SCOPE = ('every built-in reward and termination component against an oracle restating its docstring, with reward parameters '
         'symbolic reals (so "exactly its documented value" is decided for all parameter values), on next states produced by the '
         'real dynamics and on arbitrary next states; combinators with stub components returning fresh symbolic values; wiring of '
         'GridWorld.functional_step')
BOUNDS = {
    'quick': dict(corridors='serpentine walls on odd rows or columns with symbolic gap ends: 5x5, 7x7, 5x9, 9x9 (thorough: up to 13x13), agent anywhere, 4 moves', local='shapes 1x1..2x2 (front-cell components also 1x3, 3x1); 33-object alphabet in the cells read (overlap, pickndrop: 8 objects); all poses/actions/held items; next state = real dynamics (move+turn chain, or the full chain for door/pick rewards), and arbitrary states over 8 objects',
                  scanning='getting_closer (manhattan, euclidean), proportional_to_distance: one Exit at every cell of a Floor grid 2x2..3x3; '
                           'getting_closer_shortest_path: every Floor/Wall background of 2x2, 2x3, 3x2 with the Exit at every cell; distance shaping also on triples whose next state has its own target/agent position/layout (1x3, 2x2) and on door-opening dynamics (1x3, 1x4, 2x2); reach_exit_memory: '
                           '2x2 and 1x4 over {Floor, Exit(RED), Exit(BLUE), Beacon(RED), Beacon(BLUE)} with all beacons of one colour',
                  combinators='reduce_sum over 0..4 components, reduce_any/reduce_all over 0..4 components'),
    'thorough': dict(local='shapes 1x1..3x3, 41-object alphabet', scanning='as quick plus 3x3 Floor/Wall backgrounds, 4x4 Floor grids', combinators='0..5 components'),
}
OUTSIDE = 'larger grids; float rounding of sums (parameters are reals in the solver); user-registered components'
ASSUMPTIONS = ['documented preconditions: distance rewards need exactly one object of object_type; reach_exit_memory needs a beacon (and, as all resets guarantee, all beacons of one colour)',
               'bump_into_wall: "bumping fires iff the attempted move targets a wall" is read under the kinematic invariant (agent not standing on a wall) for non-move actions',
               'reward parameters are modelled as reals (sums exact); distances on concrete positions use the same float operations as the implementation']
STUBS = ['LazyRows', 'LazyAgent', 'SymRng']
TIME_LIMIT = {'quick': 300, 'thorough': 1800}

FULL = 'chain[move,turn,actuate_door,actuate_box,pickndrop]'


def _front(state):
    dy, dx = rot(TURNS[state.agent.orientation], -1, 0)
    return state.agent.position.y + dy, state.agent.position.x + dx


def _cell(st, world, y, x):
    """content of a cell of a lazy state (materialises it)"""
    return st.grid.objects[int(y)][int(x)]


def arbitrary_next(sx, H, W, sigma, orientations=ORS):
    """an arbitrary state of the same shape (independent symbolic description)"""
    world = World(sx, 'n', H, W, sigma)
    rows = LazyRows(world)
    from gym_gridverse.grid import Grid
    grid = Grid.__new__(Grid)
    Grid.__init__(grid, rows)
    y = sx.int('ny', 0, H - 1)
    x = sx.int('nx', 0, W - 1)
    o = sx.choice('no', orientations)
    _LAZY['nheld'] = (sx, sigma, 'nheld')
    return State(grid, LazyAgent(Position(y, x), o, 'nheld')), world


def mk_local(name, H, W, sigma, arbitrary, dynamics=FULL):
    def h(sx):
        state, world = lazy_state(sx, H, W, sigma)
        a = sx.choice('a', ACTIONS)
        if arbitrary:
            nxt, nworld = arbitrary_next(sx, H, W, sigma)
        else:
            nxt = transition_with_copy(transition(dynamics), state, a, rng=SymRng(sx))
        P = [sx.real('p0'), sx.real('p1')]

        def on_type(T):
            p = nxt.agent.position
            return isinstance(_cell(nxt, None, p.y, p.x), T)

        if name == 'overlap':
            T = sx.choice('T', [Exit, Key])
            got = RF.overlap(state, a, nxt, object_type=T, reward_on=P[0], reward_off=P[1])
            exp = P[0] if on_type(T) else P[1]
            tgot = TF.overlap(state, a, nxt, object_type=T)
            texp = on_type(T)
        elif name == 'reach_exit':
            got = RF.reach_exit(state, a, nxt, reward_on=P[0], reward_off=P[1])
            exp = P[0] if on_type(Exit) else P[1]
            tgot, texp = TF.reach_exit(state, a, nxt), on_type(Exit)
            sx.cover('on-exit' if texp else 'off-exit')
        elif name == 'bump_moving_obstacle':
            got = RF.bump_moving_obstacle(state, a, nxt, reward=P[0])
            exp = P[0] if on_type(MovingObstacle) else 0.0
            tgot, texp = TF.bump_moving_obstacle(state, a, nxt), on_type(MovingObstacle)
        elif name == 'living_reward':
            got = RF.living_reward(state, a, nxt, reward=P[0])
            exp, tgot, texp = P[0], None, None
        elif name == 'bump_into_wall':
            got = RF.bump_into_wall(state, a, nxt, reward=P[0])
            tgot = TF.bump_into_wall(state, a, nxt)
            py, px, o = state.agent.position.y, state.agent.position.x, state.agent.orientation
            if a in MOVE_UNIT:
                dy, dx = rot(TURNS[o], *MOVE_UNIT[a])
                ty, tx = py + dy, px + dx
                bump = bool(sym_and(0 <= ty, ty < H, 0 <= tx, tx < W)) and isinstance(_cell(state, world, ty, tx), Wall)
            else:
                # documented for attempted moves; for other actions nothing is attempted (read under the invariant
                # that the agent does not stand on a wall)
                sx.assume(not isinstance(_cell(state, world, py, px), Wall))
                bump = False
            sx.cover('bump' if bump else 'no-bump')
            exp, texp = (P[0] if bump else 0.0), bump
        elif name == 'actuate_door':
            got = RF.actuate_door(state, a, nxt, reward_open=P[0], reward_close=P[1])
            tgot = texp = None
            exp = 0.0
            fy, fx = _front(state)
            if a is Action.ACTUATE and sym_and(0 <= fy, fy < H, 0 <= fx, fx < W):
                d0 = _cell(state, world, fy, fx)
                d1 = _cell(nxt, None, fy, fx)
                if isinstance(d0, Door) and isinstance(d1, Door):
                    o0 = d0.state is Door.Status.OPEN
                    o1 = d1.state is Door.Status.OPEN
                    if not o0 and o1:
                        exp = P[0]
                        sx.cover('door-opened')
                    elif o0 and not o1:
                        exp = P[1]
                        sx.cover('door-closed')
        elif name == 'pickndrop':
            T = sx.choice('T', [Key, Door, Floor])
            got = RF.pickndrop(state, a, nxt, object_type=T, reward_pick=P[0], reward_drop=P[1])
            tgot = texp = None
            has = isinstance(state.agent.grid_object, T)
            nhas = isinstance(nxt.agent.grid_object, T)
            exp = P[0] if (not has and nhas) else P[1] if (has and not nhas) else 0.0
            sx.cover('picked' if (not has and nhas) else 'dropped' if (has and not nhas) else 'no-change')
        else:
            raise AssertionError(name)
        sx.cover(name, nontrivial=False)
        sx.check(got == exp, name + '-reward-value', f'got {got!r} expected {exp!r}')
        if tgot is not None:
            import numpy as _np
            sx.check(isinstance(tgot, (bool, SymBool, _np.bool_)), name + '-termination-type')
            sx.check(bool(tgot) == bool(texp), name + '-termination-value')
    return h


# ---------------------------------------------------------------------------
# scanning rewards under their uniqueness precondition


def bfs(passable, src, H, W):
    dist = {src: 0}
    dq = deque([src])
    while dq:
        y, x = dq.popleft()
        for dy, dx in ((-1, 0), (1, 0), (0, -1), (0, 1)):
            q = (y + dy, x + dx)
            if 0 <= q[0] < H and 0 <= q[1] < W and passable[q[0]][q[1]] and q not in dist:
                dist[q] = dist[(y, x)] + 1
                dq.append(q)
    return dist


FW = [('Floor', Floor), ('Wall', Wall)]
F1 = FW[:1]


def mk_distance(kind, H, W, background):
    def h(sx):
        state, world = lazy_state(sx, H, W, background, held_sigma=[])
        ey = int(sx.int('ey', 0, H - 1))
        ex = int(sx.int('ex', 0, W - 1))
        world.fixed[(ey, ex)] = Exit
        a = sx.choice('a', ACTIONS)
        nxt = transition_with_copy(transition('chain[move,turn]'), state, a)
        P = [sx.real('p0'), sx.real('p1')]
        p0 = (int(state.agent.position.y), int(state.agent.position.x))
        p1 = (int(nxt.agent.position.y), int(nxt.agent.position.x))
        if kind in ('manhattan', 'euclidean'):
            df = Position.manhattan_distance if kind == 'manhattan' else Position.euclidean_distance
            got = RF.getting_closer(state, a, nxt, distance_function=df, object_type=Exit, reward_closer=P[0], reward_further=P[1])
            if kind == 'manhattan':
                d0 = abs(p0[0] - ey) + abs(p0[1] - ex)
                d1 = abs(p1[0] - ey) + abs(p1[1] - ex)
            else:  # the sign of the change of the euclidean distance is the sign of the change of its square
                d0 = (p0[0] - ey) ** 2 + (p0[1] - ex) ** 2
                d1 = (p1[0] - ey) ** 2 + (p1[1] - ex) ** 2
        elif kind == 'shortest_path':
            got = RF.getting_closer_shortest_path(state, a, nxt, object_type=Exit, reward_closer=P[0], reward_further=P[1])
            passable = [[not blocks_movement(world.make(y, x)) for x in range(W)] for y in range(H)]
            dist = bfs(passable, (ey, ex), H, W)
            d0 = dist.get(p0, math.inf)
            d1 = dist.get(p1, math.inf)
        elif kind.startswith('proportional'):
            df = Position.manhattan_distance if kind.endswith('manhattan') else Position.euclidean_distance
            got = RF.proportional_to_distance(state, a, nxt, distance_function=df, object_type=Exit, reward_per_unit_distance=P[0])
            if kind.endswith('manhattan'):
                exp = P[0] * (abs(p1[0] - ey) + abs(p1[1] - ex))
            else:
                exp = P[0] * math.sqrt((p1[0] - ey) ** 2 + (p1[1] - ex) ** 2)
            sx.cover('proportional')
            sx.check(got == exp, 'proportional-value', f'{got!r} vs {exp!r}')
            again = RF.proportional_to_distance(state, a, nxt, distance_function=df, object_type=Exit, reward_per_unit_distance=P[0])
            sx.check(again == got, 'deterministic')
            return
        exp = P[0] if d1 < d0 else P[1] if d1 > d0 else 0.0
        sx.cover('closer' if d1 < d0 else 'further' if d1 > d0 else 'same')
        sx.check(got == exp, kind + '-sign-of-distance-change', f'd {d0}->{d1}: got {got!r} expected {exp!r}')
    return h


def _dist(kind, p, e, passable, H, W):
    if kind in ('manhattan', 'proportional-manhattan'):
        return abs(p[0] - e[0]) + abs(p[1] - e[1])
    if kind in ('euclidean', 'proportional-euclidean'):
        return (p[0] - e[0]) ** 2 + (p[1] - e[1]) ** 2  # squared: same order as the euclidean distance
    return bfs(passable, e, H, W).get(p, math.inf)


FWD = FW + [('Door(CLOSED,NONE)', lambda: Door(Door.Status.CLOSED, Color.NONE))]


def mk_distance_general(kind, H, W, background, nxt_kind):
    """distance shaping on triples where the target / the layout may differ between state and next state:
    nxt_kind='arbitrary' (independent next state) or 'doors' (real full-chain dynamics on a grid with doors)"""
    def h(sx):
        arb = nxt_kind == 'arbitrary'
        # the distance components never read the action or the headings: one heading / two actions on arbitrary triples
        state, world = lazy_state(sx, H, W, background, held_sigma=[], orientations=ORS[:1] if arb else ORS)
        ey = int(sx.int('ey', 0, H - 1))
        ex = int(sx.int('ex', 0, W - 1))
        world.fixed[(ey, ex)] = Exit
        a = sx.choice('a', [Action.MOVE_FORWARD, Action.ACTUATE] if arb else ACTIONS)
        if nxt_kind == 'arbitrary':
            nxt, nworld = arbitrary_next(sx, H, W, background, orientations=ORS[1:2])
            fy = int(sx.int('fy', 0, H - 1))
            fx = int(sx.int('fx', 0, W - 1))
            nworld.fixed[(fy, fx)] = Exit
        else:
            nxt = transition_with_copy(transition(FULL), state, a)
            nworld, (fy, fx) = None, (ey, ex)
        P = [sx.real('p0'), sx.real('p1')]
        if kind == 'shortest_path':
            got = RF.getting_closer_shortest_path(state, a, nxt, object_type=Exit, reward_closer=P[0], reward_further=P[1])
        else:
            df = Position.manhattan_distance if kind == 'manhattan' else Position.euclidean_distance
            got = RF.getting_closer(state, a, nxt, distance_function=df, object_type=Exit, reward_closer=P[0], reward_further=P[1])
        p0 = (int(state.agent.position.y), int(state.agent.position.x))
        p1 = (int(nxt.agent.position.y), int(nxt.agent.position.x))
        pass0 = [[not blocks_movement(state.grid.objects[y][x]) for x in range(W)] for y in range(H)]
        pass1 = [[not blocks_movement(nxt.grid.objects[y][x]) for x in range(W)] for y in range(H)]
        d0 = _dist(kind, p0, (ey, ex), pass0, H, W)
        d1 = _dist(kind, p1, (fy, fx), pass1, H, W)
        exp = P[0] if d1 < d0 else P[1] if d1 > d0 else 0.0
        lab = 'closer' if d1 < d0 else 'further' if d1 > d0 else 'same'
        sx.cover(lab + ('-agent-unmoved' if p0 == p1 else ''), nontrivial=True)
        sx.check(got == exp, kind + '-sign-of-distance-change', f'agent {p0}->{p1} target {(ey, ex)}->{(fy, fx)} d {d0}->{d1}: got {got!r} expected {exp!r}')
    return h


MEM = [('Floor', Floor), ('Exit(RED)', lambda: Exit(Color.RED)), ('Exit(BLUE)', lambda: Exit(Color.BLUE)),
       ('Beacon(RED)', lambda: Beacon(Color.RED)), ('Beacon(BLUE)', lambda: Beacon(Color.BLUE))]


def mk_memory(H, W):
    def h(sx):
        state, world = lazy_state(sx, H, W, MEM, held_sigma=[])
        a = sx.choice('a', [Action.MOVE_FORWARD, Action.MOVE_LEFT, Action.TURN_LEFT])
        nxt = transition_with_copy(transition('chain[move,turn]'), state, a)
        P = [sx.real('p0'), sx.real('p1')]
        cells = [world.make(y, x) for y in range(H) for x in range(W)]
        beacons = [c for c in cells if isinstance(c, Beacon)]
        sx.assume(len(beacons) >= 1 and len({b.color for b in beacons}) == 1)  # documented / guaranteed by every reset
        got = RF.reach_exit_memory(state, a, nxt, reward_good=P[0], reward_bad=P[1])
        here = nxt.grid.objects[int(nxt.agent.position.y)][int(nxt.agent.position.x)]
        if isinstance(here, Exit):
            good = here.color is beacons[0].color
            exp = P[0] if good else P[1]
            sx.cover('good-exit' if good else 'bad-exit')
        else:
            exp = 0.0
            sx.cover('no-exit')
        sx.check(got == exp, 'memory-reward-value', f'{got!r} vs {exp!r}')
    return h


# ---------------------------------------------------------------------------
# combinators and wiring


def mk_combinators(n):
    def h(sx):
        state, world = lazy_state(sx, 1, 2, F1, held_sigma=[])
        a = sx.choice('a', ACTIONS[:2])
        nxt, nworld = arbitrary_next(sx, 1, 2, F1)
        vals = [sx.real(f'r{i}') for i in range(n)]
        flags = [sx.bool(f'b{i}') for i in range(n)]
        seen = []
        rng = object()

        def mk_r(i):
            def r(s, act, ns, *, rng=None):
                seen.append(('r', i, s is state, act is a, ns is nxt, rng))
                return vals[i]
            return r

        def mk_t(i):
            def t(s, act, ns, *, rng=None):
                seen.append(('t', i, s is state, act is a, ns is nxt, rng))
                return flags[i]
            return t

        total = RF.reduce_sum(state, a, nxt, reward_functions=[mk_r(i) for i in range(n)], rng=rng)
        exp = 0
        for v in vals:
            exp = exp + v
        sx.cover('combinators')
        sx.check(total == exp, 'reduce-sum-is-the-sum')
        sx.check(sorted(s[1] for s in seen if s[0] == 'r') == list(range(n)), 'every-reward-component-evaluated-exactly-once')
        sx.check(all(s[2] and s[3] and s[4] and s[5] is rng for s in seen), 'components-get-the-same-triple-and-rng')
        del seen[:]
        anyv = TF.reduce_any(state, a, nxt, terminating_functions=[mk_t(i) for i in range(n)], rng=rng)
        sx.check(bool(anyv) == bool(sym_or(*flags)) if n else anyv is False or anyv == False, 'reduce-any-is-or')  # noqa: E712
        allv = TF.reduce_all(state, a, nxt, terminating_functions=[mk_t(i) for i in range(n)], rng=rng)
        sx.check(bool(allv) == bool(sym_and(*flags)) if n else allv is True or allv == True, 'reduce-all-is-and')  # noqa: E712
        sx.check(all(s[2] and s[3] and s[4] and s[5] is rng for s in seen), 'terminations-get-the-same-triple-and-rng')
    return h


def h_wiring(sx):
    """functional_step returns reward_f(S, a, S') and term_f(S, a, S') for the S' it returns; exit reward <=> exit termination"""
    reset_gv_debug(False)
    H, W = 2, 2
    sigma = [e for e in SIGMA_2C if e[0] in ('Floor', 'Wall', 'Exit(NONE)', 'MovingObstacle')]
    calls = []
    R, L = sx.real('R'), sx.real('L')
    sx.assume(R != 0)
    flag = sx.bool('flag')

    def reward_probe(s, act, ns, *, rng=None):
        calls.append(('r', s, act, ns))
        return RF.reduce_sum(s, act, ns, reward_functions=[partial(RF.reach_exit, reward_on=R, reward_off=0.0), partial(RF.living_reward, reward=L)])

    def term_probe(s, act, ns, *, rng=None):
        calls.append(('t', s, act, ns))
        return TF.reduce_any(s, act, ns, terminating_functions=[TF.reach_exit, TF.bump_moving_obstacle])

    env = GridWorld(StateSpace(Shape(H, W), [Floor, Wall, Exit, MovingObstacle], [Color.NONE]), ActionSpace(list(Action)),
                    ObservationSpace(Shape(3, 3), [Floor, Wall, Exit, MovingObstacle], [Color.NONE]),
                    None, transition('chain[move,turn]'), None, reward_probe, term_probe)
    state, world = lazy_state(sx, H, W, sigma, held_sigma=[])
    a = sx.choice('a', ACTIONS)
    nxt, reward, done = env.functional_step(state, a)
    sx.cover('wiring')
    sx.check(len(calls) == 2 and {c[0] for c in calls} == {'r', 't'}, 'reward-and-termination-called-once')
    sx.check(all(c[1] is state and c[2] is a and c[3] is nxt for c in calls), 'components-see-(state, action, returned next state)')
    here = nxt.grid.objects[int(nxt.agent.position.y)][int(nxt.agent.position.x)]
    on_exit = isinstance(here, Exit)
    on_obst = isinstance(here, MovingObstacle)
    sx.check(reward == (R + L if on_exit else L), 'reward-is-sum-of-parts')
    sx.check(bool(done) == (on_exit or on_obst), 'termination-is-any-of-parts')
    exit_term = TF.reach_exit(state, a, nxt)
    sx.check((reward - L == R) == bool(exit_term), 'exit-reward-paid-exactly-when-exit-termination-fires')


def mk_determinism(which):
  def h_determinism(sx):
    """evaluating a component twice on the same triple gives the same value"""
    H, W = 2, 2
    sg = [e for e in SIGMA_2C if e[0] in ('Floor', 'Wall', 'Exit(NONE)', 'Key(YELLOW)', 'MovingObstacle', 'Door(OPEN,YELLOW)', 'Door(LOCKED,YELLOW)', 'Door(CLOSED,YELLOW)')]
    state, world = lazy_state(sx, H, W, sg)
    a = sx.choice('a', ACTIONS)
    nxt = transition_with_copy(transition(FULL), state, a)
    f = {'reach_exit': partial(RF.reach_exit, reward_on=2.0, reward_off=-3.0), 'bump_into_wall': partial(RF.bump_into_wall, reward=-1.5),
         'actuate_door': RF.actuate_door, 'pickndrop': partial(RF.pickndrop, object_type=Key),
         'bump_moving_obstacle': RF.bump_moving_obstacle}[which]
    r1 = f(state, a, nxt)
    r2 = f(state, a, nxt)
    sx.cover('twice')
    sx.check(r1 == r2, 'same-value-twice')
    t = {'reach_exit': TF.reach_exit, 'bump_into_wall': TF.bump_into_wall, 'bump_moving_obstacle': TF.bump_moving_obstacle}.get(which)
    if t is not None:
        sx.check(bool(t(state, a, nxt)) == bool(t(state, a, nxt)), 'same-flag-twice')
  return h_determinism


def mk_shortest_path_corridors(H, W):
    """long winding corridors (the shortest path is much longer than the grid's perimeter): serpentine walls on every other row (or
    column) with the gap at alternating ends, each gap position symbolic between the two ends; the Exit in a corner, the agent anywhere"""
    from gym_gridverse.agent import Agent
    from gym_gridverse.geometry import Orientation
    from gym_gridverse.grid import Grid

    def h(sx):
        by_rows = sx.choice('walls', ['rows', 'columns'])
        n_lines, length = (H, W) if by_rows == 'rows' else (W, H)
        rows = [[Floor() for _ in range(W)] for _ in range(H)]
        for k, line in enumerate(range(1, n_lines, 2)):
            flip = bool(sx.bool(f'gap{line}'))
            gap = (length - 1) if (k % 2 == 0) != flip else 0
            for j in range(length):
                if j != gap:
                    y, x = (line, j) if by_rows == 'rows' else (j, line)
                    rows[y][x] = Wall()
        g = Grid(rows)
        g[0, 0] = Exit()
        ay = int(sx.int('ay', 0, H - 1))
        ax = int(sx.int('ax', 0, W - 1))
        sx.assume(not isinstance(rows[ay][ax], Wall))
        a = sx.choice('a', [Action.MOVE_FORWARD, Action.MOVE_BACKWARD, Action.MOVE_LEFT, Action.MOVE_RIGHT])
        t0 = State(g, Agent(Position(ay, ax), sx.choice('o', [Orientation.F, Orientation.R])))
        t1 = transition_with_copy(transition('move_agent'), t0, a)
        got = RF.getting_closer_shortest_path(t0, a, t1, object_type=Exit, reward_closer=0.25, reward_further=-0.75)
        passable = [[not blocks_movement(t0.grid.objects[y][x]) for x in range(W)] for y in range(H)]
        dist = bfs(passable, (0, 0), H, W)
        d0 = dist.get((ay, ax), math.inf)
        d1 = dist.get((int(t1.agent.position.y), int(t1.agent.position.x)), math.inf)
        exp = 0.25 if d1 < d0 else -0.75 if d1 > d0 else 0.0
        sx.cover('corridor', nontrivial=d0 != d1)
        sx.note('longest', max(v for v in dist.values()))
        sx.check(got == exp, 'shortest-path-shaping-has-the-sign-of-the-change-in-path-length', f'agent {(ay, ax)} {a.name}: d {d0}->{d1} got {got} expected {exp}')
    return h


def h_shortest_path_other_shapes(sx):
    """the shortest-path shaping is a function of the triple alone: the same question asked after evaluating the reward on a
    grid of ANOTHER shape with the same row-major walkability pattern (a memo keyed too coarsely would collide) gets the oracle's answer"""
    from gym_gridverse.agent import Agent
    from gym_gridverse.geometry import Orientation
    from gym_gridverse.grid import Grid
    n = 12
    shapes_ = [(2, 6), (3, 4), (4, 3), (6, 2)]
    walk = [True] * n
    for i in (2, 5, 7, 8, 10):  # a few cells carry a symbolic wall
        walk[i] = not bool(sx.bool(f'wall{i}'))

    def build(shape, agent):
        H, W = shape
        rows = [[Floor() if walk[y * W + x] else Wall() for x in range(W)] for y in range(H)]
        g = Grid(rows)
        g[1, 1] = Exit()
        return State(g, Agent(Position(*agent), Orientation.F))

    first = sx.choice('first', shapes_)
    second = sx.choice('second', shapes_)
    sx.assume(first != second)
    q = partial(RF.getting_closer_shortest_path, object_type=Exit, reward_closer=2.0, reward_further=-5.0)
    # warm-up evaluation on the first shape
    s0 = build(first, (0, 0))
    q(s0, Action.MOVE_RIGHT, transition_with_copy(transition('move_agent'), s0, Action.MOVE_RIGHT))
    # the question, on the second shape
    H, W = second
    ay = int(sx.int('ay', 0, H - 1))
    ax = int(sx.int('ax', 0, W - 1))
    sx.assume(walk[ay * W + ax] or (ay, ax) == (1, 1))
    a = sx.choice('a', [Action.MOVE_FORWARD, Action.MOVE_BACKWARD, Action.MOVE_LEFT, Action.MOVE_RIGHT])
    t0 = build(second, (ay, ax))
    t1 = transition_with_copy(transition('move_agent'), t0, a)
    got = q(t0, a, t1)
    passable = [[not blocks_movement(t0.grid.objects[y][x]) for x in range(W)] for y in range(H)]
    dist = bfs(passable, (1, 1), H, W)
    d0 = dist.get((ay, ax), math.inf)
    d1 = dist.get((int(t1.agent.position.y), int(t1.agent.position.x)), math.inf)
    exp = 2.0 if d1 < d0 else -5.0 if d1 > d0 else 0.0
    sx.cover('after-another-shape')
    sx.check(got == exp, 'shortest-path-reward-independent-of-earlier-calls', f'{first}->{second} agent {(ay, ax)} {a.name}: d {d0}->{d1} got {got} expected {exp}')


def obligations(tier):
    obs = _obligations(tier)
    for o in obs:  # a sample of the symbolically decided assertions is re-decided by the cvc5 binary
        if o.name.startswith(('combinators', 'wiring')):
            o.cross_check = 6 if tier == 'quick' else 60
    return obs


def _obligations(tier):
    q = tier == 'quick'
    sigma = SIGMA_2C if q else SIGMA_FULL
    obs = []
    small = [e for e in sigma if e[0] in ('Floor', 'Wall', 'Exit(NONE)', 'Key(YELLOW)', 'MovingObstacle', 'Door(OPEN,YELLOW)', 'Door(LOCKED,YELLOW)', 'Telepod(YELLOW)')]
    for name in ['overlap', 'reach_exit', 'bump_moving_obstacle', 'living_reward', 'bump_into_wall', 'actuate_door', 'pickndrop']:
        dyn = FULL if name in ('actuate_door', 'pickndrop', 'living_reward') else 'chain[move,turn]'
        sg = small if name in ('pickndrop', 'overlap') and q else sigma
        shp = shapes(2, 2) + ([(1, 3), (3, 1)] if name in ('bump_into_wall', 'actuate_door') else []) if q else shapes(3, 3)
        for (H, W) in shp:
            if name == 'pickndrop' and H * W >= 6:
                continue  # 42 objects in the cells read x held item: beyond the thorough limit (measured); 2x2 and the 1x3/3x1 strips remain
            obs.append(Obligation(f'{name}-real-dynamics-{H}x{W}', mk_local(name, H, W, sg, False, dyn),
                                  dict(component=name, next_state='real dynamics ' + dyn, H=H, W=W, alphabet=len(sg))))
        arb = [(1, 2), (2, 2)] if q else [(1, 2), (2, 2), (2, 3)]
        for (H, W) in arb:
            obs.append(Obligation(f'{name}-arbitrary-next-{H}x{W}', mk_local(name, H, W, small, True),
                                  dict(component=name, next_state='arbitrary state of the same shape', H=H, W=W, alphabet=[e[0] for e in small])))
    for kind in ['manhattan', 'euclidean', 'proportional-manhattan', 'proportional-euclidean']:
        for (H, W) in ([(2, 2), (2, 3), (3, 3)] if q else [(2, 2), (2, 3), (3, 3), (4, 4)]):
            obs.append(Obligation(f'getting-closer-{kind}-{H}x{W}', mk_distance(kind, H, W, F1), dict(kind=kind, H=H, W=W, background='Floor')))
    for (H, W) in [(2, 2), (2, 3), (3, 2)]:  # (3x3 over every Floor/Wall layout exceeds the thorough limit; long paths are covered by the corridor obligations)
        obs.append(Obligation(f'getting-closer-shortest_path-{H}x{W}', mk_distance('shortest_path', H, W, FW), dict(H=H, W=W, background='every Floor/Wall layout')))
    # triples in which the target or the layout differs between state and next state
    for kind in ['manhattan', 'euclidean']:
        for (H, W) in ([(1, 3), (2, 2)] if q else [(1, 3), (2, 2), (2, 3)]):
            obs.append(Obligation(f'getting-closer-{kind}-arbitrary-next-{H}x{W}', mk_distance_general(kind, H, W, F1, 'arbitrary'),
                                  dict(kind=kind, H=H, W=W, next_state='arbitrary: own agent position and own target position')))
    for (H, W) in ([(1, 3), (3, 1)] if q else [(1, 3), (3, 1), (2, 2), (1, 4)]):
        obs.append(Obligation(f'getting-closer-shortest_path-arbitrary-next-{H}x{W}', mk_distance_general('shortest_path', H, W, FW, 'arbitrary'),
                              dict(H=H, W=W, next_state='arbitrary Floor/Wall layout, agent and target position')))
    for (H, W) in ([(1, 3), (1, 4), (2, 2)] if q else [(1, 3), (1, 4), (2, 2), (2, 3)]):
        obs.append(Obligation(f'getting-closer-shortest_path-doors-{H}x{W}', mk_distance_general('shortest_path', H, W, FWD, 'doors'),
                              dict(H=H, W=W, next_state='real full chain on Floor/Wall/Door(CLOSED) layouts (doors opening change the distance while the agent stands still)')))
    for (H, W) in [(2, 2), (1, 4)]:
        obs.append(Obligation(f'reach_exit_memory-{H}x{W}', mk_memory(H, W), dict(H=H, W=W, alphabet=[e[0] for e in MEM])))
    for n in range(0, 5 if q else 6):
        obs.append(Obligation(f'combinators-{n}', mk_combinators(n), dict(components=n)))
    for (H, W) in ([(5, 5), (7, 7), (5, 9), (9, 9)] if q else [(5, 5), (7, 7), (5, 9), (9, 5), (9, 9), (11, 11), (13, 13), (7, 13)]):
        obs.append(Obligation(f'shortest-path-corridors-{H}x{W}', mk_shortest_path_corridors(H, W), dict(H=H, W=W, layout='serpentine walls on odd rows or columns, symbolic gap ends')))
    obs.append(Obligation('shortest-path-after-other-shapes', h_shortest_path_other_shapes, dict(shapes='2x6, 3x4, 4x3, 6x2 with equal row-major walkability')))
    obs.append(Obligation('wiring-functional_step', h_wiring))
    for which in ['reach_exit', 'bump_into_wall', 'actuate_door', 'pickndrop', 'bump_moving_obstacle']:
        obs.append(Obligation(f'determinism-twice-{which}', mk_determinism(which), dict(component=which)))
    return obs
