"""Worlds of distinct token cells with symbolic opacity, for the observation properties."""
from functools import partial

from gym_gridverse.agent import Agent
from gym_gridverse.envs import observation_functions as OF
from gym_gridverse.geometry import Area, Orientation, Position
from gym_gridverse.grid import Grid
from gym_gridverse.grid_object import GridObject, Hidden, NoneGridObject
from gym_gridverse.state import State

from ..stubs import ORS
from ..symx import sym_and
from .common import FROM_TURNS, TURNS, rot

FUNCS = {
    'fully_transparent': OF.fully_transparent,
    'partially_occluded': OF.partially_occluded,
    'raytracing': OF.raytracing,
    'stochastic_raytracing': OF.stochastic_raytracing,
}
DETERMINISTIC = ['fully_transparent', 'partially_occluded', 'raytracing']

_SX = [None]


class Tok(GridObject, register=False):
    """one distinct instance per world cell; opacity is a symbolic boolean created on first use"""

    state_index = 0
    color = None
    blocks_movement = False
    holdable = False

    def __init__(self, name):
        self.name = name
        self._bv = None

    @property
    def blocks_vision(self):
        if self._bv is None:
            self._bv = _SX[0].bool('opaque_' + self.name)
        return self._bv

    def force(self, value):
        self._bv = value

    @classmethod
    def can_be_represented_in_state(cls):
        return False

    @classmethod
    def num_states(cls):
        return 1

    def __eq__(self, other):
        # "the object at that world cell": the same token, or an equal copy of it (tokens have unique names)
        return isinstance(other, Tok) and other.name == self.name

    def __hash__(self):
        return hash(self.name)

    def __repr__(self):
        return f'Tok({self.name})'


def make_world(sx, H, W, prefix='w'):
    _SX[0] = sx
    return [[Tok(f'{prefix}{y}_{x}') for x in range(W)] for y in range(H)]


def grid_of(toks):
    return Grid([list(r) for r in toks])


def sym_pose(sx, H, W, name='a'):
    y = sx.int(name + 'y', 0, H - 1)
    x = sx.int(name + 'x', 0, W - 1)
    o = sx.choice(name + 'o', ORS)
    return y, x, o


def sym_area(sx, box, require_agent_inside=False, bottom_row=False):
    """view area with symbolic extents inside box = (ymin_lo, ymax_hi, xmin_lo, xmax_hi)"""
    ymin_lo, ymax_hi, xmin_lo, xmax_hi = box
    ymin = sx.int('ymin', ymin_lo, ymax_hi)
    ymax = sx.int('ymax', ymin_lo, ymax_hi)
    xmin = sx.int('xmin', xmin_lo, xmax_hi)
    xmax = sx.int('xmax', xmin_lo, xmax_hi)
    sx.assume(ymin <= ymax)
    sx.assume(xmin <= xmax)
    if bottom_row:
        sx.assume(ymax == 0)
    if require_agent_inside or bottom_row:
        sx.assume(sym_and(ymin <= 0, 0 <= ymax, xmin <= 0, 0 <= xmax))
    # the area is a parameter handed to numpy / lru_cache by the code under test: concrete from here on
    return Area((int(ymin), int(ymax)), (int(xmin), int(xmax)))


def fixed_area(sx, a, fname):
    """a concrete area; dropped (Assume) if it violates the function's documented precondition"""
    ymin, ymax, xmin, xmax = a
    n = needs(fname)
    if n['bottom_row'] and ymax != 0:
        sx.assume(False)
    if (n['bottom_row'] or n['require_agent_inside']) and not (ymin <= 0 <= ymax and xmin <= 0 <= xmax):
        sx.assume(False)
    return Area((ymin, ymax), (xmin, xmax))


def area_ok(a, fname):
    ymin, ymax, xmin, xmax = a
    n = needs(fname)
    if n['bottom_row'] and ymax != 0:
        return False
    if (n['bottom_row'] or n['require_agent_inside']) and not (ymin <= 0 <= ymax and xmin <= 0 <= xmax):
        return False
    return True


AREAS_QUICK = [(-2, 0, -1, 1), (-1, 0, -2, 1), (-2, 0, 0, 2), (0, 0, 0, 0), (-1, 0, -1, 0), (-2, 1, -1, 1), (-1, 1, 0, 1), (1, 2, 1, 2), (-3, -1, -1, 0)]
AREAS_THOROUGH = AREAS_QUICK + [(-3, 0, -2, 2), (-2, 0, -3, 1), (-2, 2, -2, 2), (-3, 0, -1, 1)]


def needs(fname):
    return dict(bottom_row=fname == 'partially_occluded', require_agent_inside=fname in ('raytracing', 'stochastic_raytracing'))


def world_cell(H, W, pose, area_c, i, j):
    """oracle: world coordinates of observation cell (i, j); area_c = concrete (ymin, ymax, xmin, xmax)"""
    y, x, o = pose
    ymin, ymax, xmin, xmax = area_c
    dy, dx = rot(TURNS[o], ymin + i, xmin + j)
    wy, wx = y + dy, x + dx
    inside = 0 <= wy < H and 0 <= wx < W
    return wy, wx, inside


def concrete_area(area):
    return int(area.ymin), int(area.ymax), int(area.xmin), int(area.xmax)


def rotate_world(toks, q):
    """the world turned clockwise by q quarter turns (explicit index formulas)"""
    H, W = len(toks), len(toks[0])
    q %= 4
    if q == 0:
        return [list(r) for r in toks]
    if q == 1:  # (y, x) -> (x, H-1-y)
        new = [[None] * H for _ in range(W)]
        for y in range(H):
            for x in range(W):
                new[x][H - 1 - y] = toks[y][x]
        return new
    if q == 2:
        new = [[None] * W for _ in range(H)]
        for y in range(H):
            for x in range(W):
                new[H - 1 - y][W - 1 - x] = toks[y][x]
        return new
    new = [[None] * H for _ in range(W)]
    for y in range(H):
        for x in range(W):
            new[W - 1 - x][y] = toks[y][x]
    return new


def rotate_pose(H, W, pose, q):
    y, x, o = pose
    q %= 4
    if q == 0:
        ny, nx = y, x
    elif q == 1:
        ny, nx = x, H - 1 - y
    elif q == 2:
        ny, nx = H - 1 - y, W - 1 - x
    else:
        ny, nx = W - 1 - x, y
    return ny, nx, FROM_TURNS[(TURNS[o] + q) % 4]


def observe(fname, toks, pose, area, held=None, rng=None):
    y, x, o = pose
    st = State(grid_of(toks), Agent(Position(y, x), o, held))
    return FUNCS[fname](st, area=area, rng=rng)


def same_cells(a, b):
    """two observation grids are cell-by-cell identical (same token, or both Hidden)"""
    if a.grid.shape != b.grid.shape:
        return False
    for yy in range(a.grid.shape.height):
        for xx in range(a.grid.shape.width):
            p, q = a.grid.objects[yy][xx], b.grid.objects[yy][xx]
            if isinstance(p, Hidden) and isinstance(q, Hidden):
                continue
            if isinstance(p, Hidden) or isinstance(q, Hidden) or not (p == q):
                return False
    return True
