"""C20 The gym adapter is a faithful view of the wrapped environment (partial scope)."""
from functools import partial

import numpy as np

from gym_gridverse.action import Action
from gym_gridverse.debugging import reset_gv_debug
from gym_gridverse.envs import observation_functions as OF
from gym_gridverse.envs import reward_functions as RF
from gym_gridverse.envs import terminating_functions as TF
from gym_gridverse.envs import transition_functions as T
from gym_gridverse.envs.gridworld import GridWorld
from gym_gridverse.geometry import Shape
from gym_gridverse.grid_object import Color, Door, Exit, Floor, Key, Wall
from gym_gridverse.gym import GymEnvironment, GymStateWrapper, outer_space_to_gym_space
from gym_gridverse.outer_env import OuterEnv
from gym_gridverse.representations.observation_representations import make_observation_representation
from gym_gridverse.representations.state_representations import make_state_representation
from gym_gridverse.spaces import ActionSpace, ObservationSpace, StateSpace
from gym_gridverse.utils.fast_copy import fast_copy

from ..runner import Obligation
from ..stubs import SIGMA_2C, lazy_state

PROPERTY = 'C20'
LEVEL = 'other'
SCOPE = ('a GymEnvironment wrapped directly around OuterEnv(GridWorld) whose inner state is a lazily symbolic state: for a symbolic action index '
         'step(i) executes the i-th action of a permuted action space and returns exactly (representation of the observation of the functional '
         'next state, inner reward, inner flag, {}), inside the advertised gym spaces; reset returns the observation of the fresh state; '
         'GymStateWrapper returns the state representation, passes the observation through info, advertises env.state_space; '
         'set_state_representation / set_observation_representation advertise outer_space_to_gym_space of the new representation and switch the produced arrays')
BOUNDS = {
    'quick': dict(two_steps='two consecutive steps without reset (also after a terminal one): 1x3 over {Floor, Exit} with 8 actions; through the state wrapper 2x2 with 3 actions', worlds='1x2 over {Floor, Wall, Exit, Key(YELLOW), Door(LOCKED,YELLOW)} and 2x2 over {Floor, Key(YELLOW), Door(LOCKED,YELLOW)}, every pose, held none/Key; every operation preceded by a symbolic choice of earlier reads (none / observation / state / both) and followed by reads of both properties', view='1x3, fully transparent',
                  action_spaces='a permutation of all 8 actions and a 3-action subset; every index', representations='default, no-overlap, compact (state and observation)'),
    'thorough': dict(worlds='plus 1x3 and 3x1 (2x3 exceeds the limit)', view='1x3 and 2x3', action_spaces='same', representations='same'),
}
OUTSIDE = ('gym.make(<registered id>) and GymEnvironment.seed: the installed gym is 0.26.2 while the repository requires gym<=0.21 (seeding.create_seed no longer exists; '
           'gym.make wraps environments in checkers expecting the 0.26 step/reset API); what a registered id resolves to (outer_env_factory on the packaged yaml) is exercised in C17')
ASSUMPTIONS = ['deterministic dynamics and observation function in this harness, so the functional twin needs no draws']
STUBS = ['LazyRows', 'LazyAgent']
TIME_LIMIT = {'quick': 300, 'thorough': 1200}

SIG5 = [e for e in SIGMA_2C if e[0] in ('Floor', 'Wall', 'Exit(NONE)', 'Key(YELLOW)', 'Door(LOCKED,YELLOW)')]
HELD = [e for e in SIGMA_2C if e[0] == 'Key(YELLOW)']
SIG3 = [e for e in SIG5 if e[0] in ('Floor', 'Key(YELLOW)', 'Door(LOCKED,YELLOW)')]
TYPES = [Floor, Wall, Exit, Key, Door]
COLORS = [Color.NONE, Color.YELLOW]
PERM = [Action.TURN_RIGHT, Action.MOVE_FORWARD, Action.PICK_N_DROP, Action.MOVE_LEFT, Action.ACTUATE, Action.TURN_LEFT, Action.MOVE_BACKWARD, Action.MOVE_RIGHT]
SUBSET = [Action.ACTUATE, Action.MOVE_FORWARD, Action.TURN_LEFT]


def make_inner(H, W, actions, view, holder):
    ospace = ObservationSpace(view, TYPES, COLORS)

    def reset_f(*, rng=None):
        return holder['fresh']

    return GridWorld(StateSpace(Shape(H, W), TYPES, COLORS), ActionSpace(list(actions)), ospace, reset_f,
                     partial(T.chain, transition_functions=[T.move_agent, T.turn_agent, T.actuate_door, T.pickndrop]),
                     partial(OF.fully_transparent, area=ospace.area),
                     partial(RF.reduce_sum, reward_functions=[partial(RF.reach_exit, reward_on=5.0, reward_off=0.0), partial(RF.living_reward, reward=-0.05),
                                                              partial(RF.pickndrop, object_type=Key, reward_pick=1.0, reward_drop=-1.0)]),
                     TF.reach_exit)


def dict_eq(a, b):
    return set(a) == set(b) and all(np.array_equal(a[k], b[k]) and a[k].dtype == b[k].dtype for k in a)


def mk(H, W, actions, what, view=Shape(1, 3)):
    def h(sx):
        reset_gv_debug(False)
        holder = {}
        inner = make_inner(H, W, actions, view, holder)
        twin = make_inner(H, W, actions, view, holder)
        wrap = what.startswith('wrapper') or what.startswith('switch')
        sig = SIG3 if (wrap or H * W >= 4) else SIG5
        from ..stubs import ORS
        if what in ('switch-sequence', 'switch'):
            sig = [e for e in SIG3 if e[0] in ('Floor', 'Key(YELLOW)')]
        if what.endswith('two-steps'):
            sig = [e for e in SIG5 if e[0] in ('Floor', 'Exit(NONE)')]
        S, world = lazy_state(sx, H, W, SIG5[:1] if what.endswith('reset') else sig, held_sigma=HELD,
                              orientations=ORS[:1] if (what.endswith('reset') or what == 'switch-sequence') else ORS)
        holder['fresh'] = S
        inner.reset()  # the state is installed through the public interface: our reset function returns it
        holder.pop('fresh')
        srep = make_state_representation('default', inner.state_space)
        orep = make_observation_representation('default', inner.observation_space)
        genv = GymEnvironment(OuterEnv(inner, state_representation=srep, observation_representation=orep))
        sx.check(genv.action_space.n == len(actions), 'discrete-action-space-size')
        sx.check(genv.observation_space == outer_space_to_gym_space(orep.space) and genv.state_space == outer_space_to_gym_space(srep.space), 'advertised-spaces')
        sx.cover(what)
        # reads that may have happened before the operation (the adapter must not keep anything of them)
        can_state = H >= 2 and W >= 2
        prior = sx.choice('prior', (['none', 'both'] if what in ('step', 'wrapper-step', 'switch') else ['none'] if (what == 'switch-sequence' or what.endswith('two-steps')) else ['none', 'observation', 'state', 'both']) if can_state else ['none', 'observation'])
        if prior in ('observation', 'both'):
            genv.observation
        if prior in ('state', 'both'):
            genv.state

        def fresh_views(label, st):
            """after the operation both properties show the current state, whatever was read before"""
            sx.check(dict_eq(genv.observation, orep.convert(twin.functional_observation(fast_copy(st)))), label + '-observation-property-current')
            if can_state:
                sx.check(dict_eq(genv.state, srep.convert(st)), label + '-state-property-current')

        if what in ('step', 'wrapper-step'):
            i = sx.int('i', 0, len(actions) - 1)
            S0 = fast_copy(S)
            env = GymStateWrapper(genv) if what == 'wrapper-step' else genv
            out = env.step(i)
            i = int(i)
            S1, r2, d2 = twin.functional_step(S0, actions[i])
            exp_obs = orep.convert(twin.functional_observation(S1))
            sx.check(isinstance(out, tuple) and len(out) == 4, 'step-returns-4-tuple')
            ob, reward, done, info = out
            sx.check(reward == r2 and bool(done) == bool(d2), 'index-i-executes-the-i-th-action', f'i={i} action={actions[i].name}: ({reward},{done}) vs ({r2},{d2})')
            if what == 'step':
                sx.check(dict_eq(ob, exp_obs), 'step-returns-the-observation-of-the-post-step-state')
                sx.check(isinstance(info, dict) and 'observation' not in info or dict_eq(info.get('observation', {}), exp_obs), 'info-is-a-dict-with-nothing-stale')
                sx.check(bool(genv.observation_space.contains(ob)), 'observation-inside-advertised-space')
                sx.check(dict_eq(genv.observation, exp_obs), 'observation-property-is-fresh')
            else:
                exp_state = srep.convert(S1)
                sx.check(dict_eq(ob, exp_state), 'wrapper-returns-the-state-representation')
                sx.check(set(info) == {'observation'} and dict_eq(info['observation'], exp_obs), 'wrapper-passes-the-observation-through-info')
                sx.check((env.observation_space is genv.state_space or env.observation_space == genv.state_space) and bool(env.observation_space.contains(ob)), 'wrapper-advertises-and-respects-the-state-space')
            fresh_views('after-step', S1)
        elif what in ('two-steps', 'wrapper-two-steps'):
            # stepping on after whatever the first step returned (also after a terminal step, without reset): each step still reports the
            # inner reward and termination flag of THAT step and the observation of its post-step state
            env = GymStateWrapper(genv) if what.startswith('wrapper') else genv
            cur = fast_copy(S)
            for k in range(2):
                i = sx.int(f'i{k}', 0, len(actions) - 1)
                out = env.step(i)
                i = int(i)
                cur, r2, d2 = twin.functional_step(cur, actions[i])
                sx.check(isinstance(out, tuple) and len(out) == 4, 'step-returns-4-tuple')
                ob, reward, done, info = out
                sx.check(reward == r2, f'step-{k + 1}-reward-is-the-inner-reward', f'{reward} vs {r2}')
                sx.check(bool(done) == bool(d2), f'step-{k + 1}-flag-is-the-inner-termination-flag', f'{done} vs {d2}')
                exp_obs = orep.convert(twin.functional_observation(cur))
                if what == 'two-steps':
                    sx.check(dict_eq(ob, exp_obs), f'step-{k + 1}-returns-the-observation-of-the-post-step-state')
                else:
                    sx.check(dict_eq(ob, srep.convert(cur)) and dict_eq(info.get('observation', {}), exp_obs), f'step-{k + 1}-wrapper-views-current')
            fresh_views('after-two-steps', cur)
        elif what in ('reset', 'wrapper-reset'):
            fresh, _ = lazy_state(sx, H, W, sig, name='r', held_sigma=[], agent='r', held='rheld', orientations=ORS[1:3])
            holder['fresh'] = fresh
            env = GymStateWrapper(genv) if what == 'wrapper-reset' else genv
            ob = env.reset()
            from .c04 import states_equal
            states_equal(sx, inner.state, fresh, 'reset-installs-the-fresh-state')
            if what == 'reset':
                sx.check(dict_eq(ob, orep.convert(twin.functional_observation(fresh))), 'reset-returns-the-observation-of-the-fresh-state')
                sx.check(bool(genv.observation_space.contains(ob)), 'reset-observation-inside-advertised-space')
            else:
                sx.check(dict_eq(ob, srep.convert(fresh)), 'wrapper-reset-returns-the-state-representation')
            fresh_views('after-reset', fresh)
        elif what == 'switch-sequence':
            # any sequence of two switches: afterwards BOTH advertised spaces and BOTH produced views follow the names last requested
            current = {'state': 'default', 'observation': 'default'}
            for i in range(2):
                which = sx.choice(f'which{i}', ['state', 'observation'])
                name = sx.choice(f'name{i}', ['default', 'no-overlap', 'compact'])
                (genv.set_state_representation if which == 'state' else genv.set_observation_representation)(name)
                current[which] = name
            ns = make_state_representation(current['state'], inner.state_space)
            no = make_observation_representation(current['observation'], inner.observation_space)
            sx.check(genv.state_space == outer_space_to_gym_space(ns.space), 'state-space-follows-the-last-requested-name', str(current))
            sx.check(genv.observation_space == outer_space_to_gym_space(no.space), 'observation-space-follows-the-last-requested-name', str(current))
            sx.check(dict_eq(genv.state, ns.convert(S)), 'state-uses-the-last-requested-representation', str(current))
            sx.check(dict_eq(genv.observation, no.convert(twin.functional_observation(fast_copy(S)))), 'observation-uses-the-last-requested-representation', str(current))
        elif what == 'switch':
            name = sx.choice('name', ['default', 'no-overlap', 'compact'])
            which = sx.choice('which', ['state', 'observation'])
            if which == 'state':
                genv.set_state_representation(name)
                new = make_state_representation(name, inner.state_space)
                sx.check(genv.state_space == outer_space_to_gym_space(new.space), 'state-space-follows-the-representation')
                arr = genv.state
                sx.check(dict_eq(arr, new.convert(S)) and bool(genv.state_space.contains(arr)), 'state-uses-the-new-representation-inside-the-new-space')
                sx.check(genv.observation_space == outer_space_to_gym_space(orep.space), 'observation-space-untouched')
            else:
                genv.set_observation_representation(name)
                new = make_observation_representation(name, inner.observation_space)
                sx.check(genv.observation_space == outer_space_to_gym_space(new.space), 'observation-space-follows-the-representation')
                arr = genv.observation
                sx.check(dict_eq(arr, new.convert(twin.functional_observation(fast_copy(S)))) and bool(genv.observation_space.contains(arr)),
                         'observation-uses-the-new-representation-inside-the-new-space')
                sx.check(genv.state_space == outer_space_to_gym_space(srep.space), 'state-space-untouched')
    return h


def obligations(tier):
    q = tier == 'quick'
    obs = []
    worlds = [(1, 2), (2, 2)] if q else [(1, 2), (2, 2), (1, 3), (3, 1)]  # (2x3 exceeded the thorough limit in every variant: measured)
    for (H, W) in worlds:
        for aname, actions in (('perm8', PERM), ('subset3', SUBSET)):
            for what in ('step', 'reset'):
                if q and what == 'step' and aname == 'perm8' and H * W >= 4:
                    continue  # the 8-action space is exercised on 1x2; 2x2 uses the 3-action subset
                obs.append(Obligation(f'{what}-{aname}-{H}x{W}', mk(H, W, actions, what), dict(what=what, actions=[a.name for a in actions], H=H, W=W)))
    for (H, W) in [(2, 2)]:  # the state representation needs height, width >= 2 (2x3 exceeded the thorough limit)
        for what in ('wrapper-step', 'wrapper-reset', 'switch', 'switch-sequence'):
            acts, an = (SUBSET, 'subset3') if (q and what == 'wrapper-step') else (PERM, 'perm8')
            obs.append(Obligation(f'{what}-{an}-{H}x{W}', mk(H, W, acts, what), dict(what=what, H=H, W=W, actions=an)))
    obs.append(Obligation('two-steps-perm8-1x3', mk(1, 3, PERM, 'two-steps'), dict(what='two consecutive steps without reset (also after a terminal one)', H=1, W=3, actions='perm8', alphabet='Floor, Exit')))
    obs.append(Obligation('wrapper-two-steps-subset3-2x2', mk(2, 2, SUBSET, 'wrapper-two-steps'), dict(what='two consecutive steps through the state wrapper', H=2, W=2, actions='subset3', alphabet='Floor, Exit')))
    if not q:
        obs.append(Obligation('step-perm8-2x2-view2x3', mk(2, 2, PERM, 'step', Shape(2, 3)), dict(what='step', view=[2, 3])))
    return obs
