"""C16 Numeric representations are faithful: lossless, positional and well-separated."""
import numpy as np

from gym_gridverse.agent import Agent
from gym_gridverse.debugging import reset_gv_debug
from gym_gridverse.geometry import Orientation, Position, Shape
from gym_gridverse.grid import Grid
from gym_gridverse.grid_object import Color, Hidden, NoneGridObject
from gym_gridverse.observation import Observation
from gym_gridverse.representations.observation_representations import make_observation_representation
from gym_gridverse.representations.state_representations import make_state_representation
from gym_gridverse.state import State
from gym_gridverse.utils.fast_copy import fast_copy

from ..runner import Obligation
from ..stubs import ORS
from ..symx import sym_and, sym_not, sym_or
from .rep_common import (COLOR_SETS, GO_OBS, GO_STATE, REPS, TYPE_SETS, fixed_observation,
                         fixed_state, make_space, member_types, real_objects, sym_duck, Duck)

PROPERTY = 'C16'
LEVEL = 'other'
SCOPE = ('per-object encodings on pairs/triples of objects with SYMBOLIC status and colour (types forked): equal encodings <=> equal objects, '
         'default = index triple, no-overlap channels strictly ordered hence disjoint, compact = consecutive values from zero; real objects: '
         '== / hash consistent with the encoding; cell-wise lemma: the entry for cell (y, x) of a whole-state/observation encoding is the '
         'per-object encoding of that cell at every position and for every other content, the agent marker is 1 exactly at the agent cell; '
         'state level: changing one component (a cell, the position, the heading, the held item) changes the representation, equal states have equal representations and hashes')
BOUNDS = {
    'quick': dict(repeated_entry='a type list that names a type twice', spaces='7 type sets x 5 colour sets x 3 representations x {state, observation} for the per-object claims; 4 spaces for the whole-state claims',
                  shapes='grids 2x2 (2x3 for the basic space); views 1x3 (2x3 for the basic space); on alphabets of more than 8 objects the distinguished cell ranges over every third object in the cell-wise lemma and cell content / pose / held item vary one at a time', pairs='all pairs of objects of a space (symbolic status/colour)'),
    'thorough': dict(spaces='same', shapes='plus 3x3 / 3x5', pairs='same'),
}
OUTSIDE = 'type subsets beyond the listed family; whole grids are covered through the cell-wise lemma rather than by enumerating grids'
ASSUMPTIONS = ['Box content is not part of GridObject equality (Box(a) == Box(b) by design: boxes cannot be represented in state); objects of the observation spaces compare likewise']
STUBS = ['Duck grid object']
TIME_LIMIT = {'quick': 300, 'thorough': 3000}


def same_duck(a, b):
    return sym_and(a.T is b.T, a.state_index == b.state_index, a.color.value == b.color.value)


def mk_pairs(kind, rep, tname, cname):
    def h(sx):
        space = make_space(kind, tname, cname, Shape(3, 3))
        gor = (GO_STATE if kind == 'state' else GO_OBS)[rep](space)
        a = sym_duck(sx, space, kind, 'a')
        b = sym_duck(sx, space, kind, 'b')
        ea, eb = gor.convert(a), gor.convert(b)
        sx.cover('pair')
        enc_eq = sym_and(*[ea[i] == eb[i] for i in range(3)])
        sx.check(enc_eq == same_duck(a, b), 'encodings-equal-iff-objects-equal')
        if rep == 'default':
            sx.check(sym_and(ea[0] == a.T.type_index(), ea[1] == a.state_index, ea[2] == a.color.value), 'default-is-the-index-triple')
        if rep in ('no-overlap', 'compact'):
            # for ALL objects a, b of the space: no type value is a status or colour value, no status value a colour value
            sx.check(sym_and(ea[0] != eb[1], ea[1] != eb[2], ea[0] != eb[2]), 'channels-use-pairwise-disjoint-value-ranges', f'{ea!r} {eb!r}')
            sx.check(ea[0] >= 0, 'values-nonnegative')
    return h


def mk_compact_dense(kind, tname, cname):
    def h(sx):
        space = make_space(kind, tname, cname, Shape(3, 3))
        gor = (GO_STATE if kind == 'state' else GO_OBS)['compact'](space)
        objs = real_objects(space, kind)
        used = set()
        for lab, f in objs:
            used.update(int(v) for v in gor.convert(f()))
        types = member_types(space, kind)
        n = len(types) + sum(T.num_states() for T in types) + len(space.colors)
        sx.cover('compact')
        sx.check(min(used) == 0 and used <= set(range(n)), 'compact-values-start-at-zero-and-stay-below-n', f'{sorted(used)} n={n}')
        # every status index of every type and every colour gets a value (also those no constructed object happens to use)
        allv = set()
        for T in types:
            for st in range(T.num_states()):
                for c in space.colors:
                    allv.update(int(v) for v in gor.convert(Duck(T, st, c.value)))
        sx.check(allv == set(range(n)), 'compact-values-are-consecutive-from-zero', f'{sorted(allv)} n={n}')
        ub = tuple(int(v) for v in gor.space.upper_bound)
        sx.check(all(max(int(gor.convert(Duck(T, st, c.value))[i]) for T in types for st in range(T.num_states()) for c in space.colors) <= ub[i] for i in range(3)),
                 'compact-upper-bounds-cover-the-values-of-each-channel', repr(gor.space.upper_bound.tolist()))
    return h


def mk_real_eq(kind, rep, tname, cname):
    def h(sx):
        space = make_space(kind, tname, cname, Shape(3, 3))
        gor = (GO_STATE if kind == 'state' else GO_OBS)[rep](space)
        objs = real_objects(space, kind)
        a = sx.choice('a', objs)[1]()
        b = sx.choice('b', objs)[1]()
        ea, eb = gor.convert(a), gor.convert(b)
        sx.cover('real-pair')
        sx.check(bool(np.array_equal(ea, eb)) == bool(a == b), 'encoding-equality-matches-object-equality', f'{a!r} {b!r} {ea} {eb}')
        if a == b:
            sx.check(hash(a) == hash(b), 'equal-objects-hash-alike')
        sx.check(np.issubdtype(ea.dtype, np.integer), 'integer-dtype')
    return h


def convert_whole(kind, rep, space, x):
    r = make_state_representation(rep, space) if kind == 'state' else make_observation_representation(rep, space)
    return r, r.convert(x)


def mk_cellwise(kind, rep, tname, cname, shape):
    def h(sx):
        reset_gv_debug(False)
        space = make_space(kind, tname, cname, shape)
        gor = (GO_STATE if kind == 'state' else GO_OBS)[rep](space)
        objs = real_objects(space, kind)
        H, W = shape.height, shape.width
        # a two-kind background (symbolic choice per cell between two objects of the space) plus a distinguished cell
        cands = [o for o in objs if o[0] not in ('NoneGridObject',) and (kind == 'observation' or o[0] != 'Hidden')]
        bg0, bg1 = cands[0], cands[-1]
        cy = int(sx.int('cy', 0, H - 1))
        cx = int(sx.int('cx', 0, W - 1))
        cell = sx.choice('cell', cands)
        # at most 4 cells carry a symbolic two-kind background (the first row-major cells); the others hold the first kind
        rows = [[(bg1 if (y * W + x < 4 and bool(sx.bool(f'bg_{y}_{x}'))) else bg0)[1]() for x in range(W)] for y in range(H)]
        rows[cy][cx] = cell[1]()
        if kind == 'state':
            ay = int(sx.int('ay', 0, H - 1))
            ax = int(sx.int('ax', 0, W - 1))
            x = State(Grid(rows), Agent(Position(ay, ax), sx.choice('ao', ORS[:2])))
        else:
            ay, ax = space.agent_position.y, space.agent_position.x
            x = Observation(Grid(rows), Agent(space.agent_position, Orientation.F))
        r, out = convert_whole(kind, rep, space, x)
        sx.cover('cellwise')
        g = out['grid']
        sx.check(g.shape == (H, W, 3), 'grid-encoding-shape')
        for y in range(H):
            for xx in range(W):
                sx.check(bool(np.array_equal(g[y, xx, :], gor.convert(rows[y][xx]))), 'entry-(y,x)-is-the-encoding-of-the-object-in-that-cell',
                         f'({y},{xx}) {rows[y][xx]!r}: {g[y, xx, :]} vs {gor.convert(rows[y][xx])}')
        m = out['agent_id_grid']
        sx.check(m.shape == (H, W) and int(m.sum()) == 1 and int(m[ay, ax]) == 1, 'agent-marker-exactly-at-the-agent-cell', repr(m.tolist()))
    return h


def reps_equal(a, b):
    return set(a) == set(b) and all(np.array_equal(a[k], b[k]) for k in a)


def mk_state_level(kind, rep, tname, cname, shape):
    def h(sx):
        reset_gv_debug(False)
        space = make_space(kind, tname, cname, shape)
        objs = real_objects(space, kind)
        if kind == 'state':
            x1, (cy, cx) = fixed_state(sx, space, objs, shape.height, shape.width)
        else:
            x1, (cy, cx) = fixed_observation(sx, space, objs)
        r, o1 = convert_whole(kind, rep, space, x1)
        x2 = fast_copy(x1)
        change = sx.choice('change', ['nothing', 'cell', 'held'] + (['position', 'heading'] if kind == 'state' else []))
        if change == 'cell':
            y = int(sx.int('y2', 0, shape.height - 1))
            xx = int(sx.int('x2', 0, shape.width - 1))
            new = sx.choice('new', [o for o in objs if o[0] != 'NoneGridObject' and (kind == 'observation' or o[0] != 'Hidden')])[1]()
            sx.assume(not (new == x2.grid[y, xx]))
            x2.grid[y, xx] = new
        elif change == 'held':
            new = sx.choice('new', [o for o in objs if o[0] != 'Hidden'])[1]()
            sx.assume(not (new == x2.agent.grid_object))
            x2.agent.grid_object = new
        elif change == 'position':
            y = int(sx.int('y2', 0, shape.height - 1))
            xx = int(sx.int('x2', 0, shape.width - 1))
            sx.assume((y, xx) != (int(x2.agent.position.y), int(x2.agent.position.x)))
            x2.agent.position = Position(y, xx)
        elif change == 'heading':
            o = sx.choice('o2', ORS)
            sx.assume(o is not x2.agent.orientation)
            x2.agent.orientation = o
        _, o2 = convert_whole(kind, rep, space, x2)
        sx.cover('changed-' + change)
        if change == 'nothing':
            sx.check(x1 == x2 and hash(x1) == hash(x2), 'copy-equal-and-hashes-alike')
            sx.check(reps_equal(o1, o2), 'equal-states-have-equal-representations')
        else:
            sx.check(not (x1 == x2), 'changed-state-differs')
            sx.check(not reps_equal(o1, o2), 'different-states-have-different-representations', f'change={change}')
    return h


def mk_inplace_hash(kind, rep):
    """'equal ones hash alike' also for a state whose door was opened IN PLACE after the state had been hashed (the way the
    dynamics change doors) compared with an independently built equal state"""
    from gym_gridverse.grid_object import Door, Floor, Key

    def h(sx):
        reset_gv_debug(False)
        space = make_space(kind, 'keydoor', 'yellow', Shape(2, 2) if kind == 'state' else Shape(1, 3))
        H, W = space.grid_shape.height, space.grid_shape.width
        dy = int(sx.int('dy', 0, H - 1))
        dx = int(sx.int('dx', 0, W - 1))
        status = sx.choice('status', [Door.Status.CLOSED, Door.Status.LOCKED])
        held_key = sx.choice('held_key', [False, True])

        def build(st):
            rows = [[Floor() for _ in range(W)] for _ in range(H)]
            rows[dy][dx] = Door(st, Color.YELLOW)
            agent = Agent(Position(0, 0) if kind == 'state' else space.agent_position, Orientation.F, Key(Color.YELLOW) if held_key else None)
            return (State if kind == 'state' else Observation)(Grid(rows), agent)

        x1 = build(status)
        asked = sx.choice('asked', ['hash', 'dict', 'nothing'])
        if asked == 'hash':
            hash(x1), hash(x1.grid[dy, dx])
        elif asked == 'dict':
            {x1: 0, x1.grid[dy, dx]: 1}
        x2 = fast_copy(x1)
        x2.grid[dy, dx].state = Door.Status.OPEN   # what actuate_door does
        x3 = build(Door.Status.OPEN)
        r, o2 = convert_whole(kind, rep, space, x2)
        _, o3 = convert_whole(kind, rep, space, x3)
        sx.cover('in-place-' + asked)
        sx.check(x2 == x3 and reps_equal(o2, o3), 'equal-states-equal-representations')
        sx.check(hash(x2) == hash(x3), 'equal-states-hash-alike-after-an-in-place-change')
        sx.check(not reps_equal(o2, convert_whole(kind, rep, space, x1)[1]) and x1 != x2, 'the-change-shows-in-the-representation')
    return h


def obligations(tier):
    obs = _obligations(tier)
    for kind in ('state', 'observation'):
        for rep in REPS:
            obs.append(Obligation(f'inplace-hash-{kind}-{rep}', mk_inplace_hash(kind, rep), dict(kind=kind, representation=rep)))
    for o in obs:  # a sample of the symbolically decided assertions is re-decided by the cvc5 binary
        if o.name.startswith(('pairs-',)):
            o.cross_check = 6 if tier == 'quick' else 60
    return obs


def _obligations(tier):
    q = tier == 'quick'
    obs = []
    for kind in ('state', 'observation'):
        for tname in TYPE_SETS:
            for cname in COLOR_SETS:
                for rep in REPS:
                    obs.append(Obligation(f'pairs-{kind}-{rep}-{tname}-{cname}', mk_pairs(kind, rep, tname, cname), dict(kind=kind, representation=rep, types=tname, colours=cname)))
                obs.append(Obligation(f'compact-dense-{kind}-{tname}-{cname}', mk_compact_dense(kind, tname, cname), dict(kind=kind, types=tname, colours=cname)))
    whole_spaces = [('basic', 'none'), ('keydoor', 'yellow'), ('memory', 'all'), ('all-representable', 'yellow')]
    if not q:
        whole_spaces += [('obstacles', 'none'), ('teleport', 'red'), ('doors-only', 'green-blue')]
    for kind in ('state', 'observation'):
        shapes = [Shape(2, 2), Shape(2, 3)] if kind == 'state' else [Shape(1, 3), Shape(2, 3)]
        if not q:
            shapes = shapes + ([Shape(3, 3)] if kind == 'state' else [Shape(3, 5)])
        for rep in REPS:
            for (tname, cname) in whole_spaces:
                obs.append(Obligation(f'real-eq-{kind}-{rep}-{tname}-{cname}', mk_real_eq(kind, rep, tname, cname), dict(kind=kind, representation=rep, types=tname, colours=cname)))
                for shape in shapes:
                    if shape.height * shape.width > 4 and q and tname != 'basic':
                        continue
                    obs.append(Obligation(f'cellwise-{kind}-{rep}-{tname}-{cname}-{shape.height}x{shape.width}', mk_cellwise(kind, rep, tname, cname, shape),
                                          dict(kind=kind, representation=rep, types=tname, colours=cname, shape=[shape.height, shape.width])))
                    obs.append(Obligation(f'state-level-{kind}-{rep}-{tname}-{cname}-{shape.height}x{shape.width}', mk_state_level(kind, rep, tname, cname, shape),
                                          dict(kind=kind, representation=rep, types=tname, colours=cname, shape=[shape.height, shape.width])))
    return obs
