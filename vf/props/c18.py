"""C18 Geometry is a consistent algebra of quarter turns and rigid motions.

Integer coordinates are unbounded symbolic integers (z3 Int); orientations are forked
(4 values each).  The oracles are written with explicit index formulas, not with
the repository's own tables.
"""
from gym_gridverse.action import Action
from gym_gridverse.agent import Agent
from gym_gridverse.envs.utils import get_next_position
from gym_gridverse.geometry import (Area, Orientation, Position, Transform,
                                    get_manhattan_boundary)
from gym_gridverse.grid import Grid
from gym_gridverse.grid_object import GridObject

from ..runner import Obligation
from ..symx import sym_and, sym_or

PROPERTY = 'C18'
LEVEL = 'proof'
SCOPE = ('integer laws are decided for ALL integers (no bound on coordinates); grid rotation and '
         'Area.positions are bounded (shapes <= 4x4 / areas <= 3x3 quick)')
BOUNDS = {
    'quick': dict(moved_in_place='one pose object moved in place (directly or through Agent.position/orientation) between two uses: coordinates -3..3, 2x3 area at offsets -2..2', coordinates='unbounded integers', orientations='all 4 (forked)', manhattan_distance='1..4',
                  grid_shapes='1x1..4x4', area_positions='heights/widths 1..3, offsets and translations in [-1,1]^2 (Area.positions needs concrete coordinates)'),
    'thorough': dict(coordinates='unbounded integers', orientations='all 4 (forked)', manhattan_distance='1..6',
                     grid_shapes='1x1..6x6', area_positions='heights/widths 1..4, offsets and translations in [-1,1]^2'),
}
OUTSIDE = 'grid rotation beyond the stated shapes; Area.positions beyond the stated extents'
ASSUMPTIONS = ['python int is modelled by mathematical integers (exact: python ints do not wrap)',
               'Area is constructed only with ymin<=ymax, xmin<=xmax (its documented validity check)']
STUBS = ['Tok: unregistered GridObject subclass compared by identity (grid rotation only)']
TIME_LIMIT = {'quick': 120, 'thorough': 600}

O = Orientation
ORS = [O.F, O.R, O.B, O.L]
# independent model of the group: quarter turns clockwise, F=0, R=1, B=2, L=3
TURNS = {O.F: 0, O.R: 1, O.B: 2, O.L: 3}
FROM_TURNS = {v: k for k, v in TURNS.items()}


def rot(k, y, x):
    """oracle: rotate (y, x) by k clockwise quarter turns (y down, x right)"""
    k %= 4
    if k == 0:
        return y, x
    if k == 1:
        return x, -y
    if k == 2:
        return -y, -x
    return -x, y


def _pos(sx, n):
    return Position(sx.int(n + 'y'), sx.int(n + 'x'))


def _eqpos(p, y, x):
    return sym_and(p.y == y, p.x == x)


def h_orientation_group(sx):
    a = sx.choice('a', ORS)
    b = sx.choice('b', ORS)
    c = sx.choice('c', ORS)
    sx.cover('group')
    sx.check(isinstance(a * b, Orientation), 'closed')
    sx.check(TURNS[a * b] == (TURNS[a] + TURNS[b]) % 4, 'cyclic-table')
    sx.check((a * b) * c == a * (b * c), 'assoc')
    sx.check(O.F * a == a and a * O.F == a, 'identity')
    sx.check(a * (-a) == O.F and (-a) * a == O.F, 'inverse')
    sx.check(a * b == b * a, 'abelian')
    sx.check(a * a * a * a == O.F, 'order4')
    sx.check(O.FORWARD is O.F, 'forward-alias')


def h_orientation_action(sx):
    o = sx.choice('o', ORS)
    o2 = sx.choice('o2', ORS)
    p = _pos(sx, 'p')
    q = _pos(sx, 'q')
    sx.cover('action')
    r = o * p
    ey, ex = rot(TURNS[o], p.y, p.x)
    sx.check(_eqpos(r, ey, ex), 'rotation-formula')
    s = o * (p + q)
    t = (o * p) + (o * q)
    sx.check(_eqpos(s, t.y, t.x), 'linear-add')
    n = o * (-p)
    m = -(o * p)
    sx.check(_eqpos(n, m.y, m.x), 'linear-neg')
    u = (o * o2) * p
    v = o * (o2 * p)
    sx.check(_eqpos(u, v.y, v.x), 'compat')
    sx.check(abs(r.y) + abs(r.x) == abs(p.y) + abs(p.x), 'manhattan-isometry')
    sx.check(r.y * r.y + r.x * r.x == p.y * p.y + p.x * p.x, 'euclid-isometry')
    d1 = Position.manhattan_distance(o * p, o * q)
    sx.check(d1 == Position.manhattan_distance(p, q), 'manhattan-distance-invariant')
    # rmul is the same action
    r2 = p * o
    sx.check(_eqpos(r2, ey, ex), 'rmul')
    # unit vectors
    f = Position.from_orientation(o)
    ey, ex = rot(TURNS[o], -1, 0)
    sx.check(_eqpos(f, ey, ex), 'from-orientation')


def h_position_algebra(sx):
    p, q, r = _pos(sx, 'p'), _pos(sx, 'q'), _pos(sx, 'r')
    sx.cover('position')
    a = (p + q) + r
    b = p + (q + r)
    sx.check(_eqpos(a, b.y, b.x), 'add-assoc')
    c = p + q
    d = q + p
    sx.check(_eqpos(c, d.y, d.x), 'add-comm')
    e = p - q
    f = p + (-q)
    sx.check(_eqpos(e, f.y, f.x), 'sub')
    g = p + Position(0, 0)
    sx.check(_eqpos(g, p.y, p.x), 'zero')
    h = p - p
    sx.check(_eqpos(h, 0, 0), 'self-inverse')
    sx.check(Position.manhattan_distance(p, q) == abs(p.y - q.y) + abs(p.x - q.x), 'manhattan')
    sx.check(Position.manhattan_distance(p, q) >= 0, 'manhattan-nonneg')
    sx.check((Position.manhattan_distance(p, q) == 0) == sym_and(p.y == q.y, p.x == q.x), 'manhattan-zero')
    sx.check(Position.manhattan_distance(p, r) <= Position.manhattan_distance(p, q) + Position.manhattan_distance(q, r),
             'triangle')


def _tf(sx, n):
    return Transform(_pos(sx, n), sx.choice(n + 'o', ORS))


def _eqtf(s, t):
    return sym_and(s.position.y == t.position.y, s.position.x == t.position.x, s.orientation is t.orientation)


def h_transform(sx):
    s, t, u = _tf(sx, 's'), _tf(sx, 't'), _tf(sx, 'u')
    p = _pos(sx, 'p')
    sx.cover('transform')
    sx.check(_eqtf((s * t) * u, s * (t * u)), 'assoc')
    ident = Transform(Position(0, 0), O.F)
    sx.check(_eqtf(ident * s, s), 'left-identity')
    sx.check(_eqtf(s * ident, s), 'right-identity')
    sx.check(_eqtf(s * (-s), ident), 'right-inverse')
    sx.check(_eqtf((-s) * s, ident), 'left-inverse')
    a = (s * t) * p
    b = s * (t * p)
    sx.check(_eqpos(a, b.y, b.x), 'action-compat')
    # explicit formula of the action
    ey, ex = rot(TURNS[s.orientation], p.y, p.x)
    c = s * p
    sx.check(_eqpos(c, s.position.y + ey, s.position.x + ex), 'action-formula')
    sx.check((s * t.orientation) is FROM_TURNS[(TURNS[s.orientation] + TURNS[t.orientation]) % 4], 'orientation-action')
    d = (-s) * (s * p)
    sx.check(_eqpos(d, p.y, p.x), 'inverse-undoes')
    # isometry
    q = _pos(sx, 'q')
    sx.check(Position.manhattan_distance(s * p, s * q) == Position.manhattan_distance(p, q), 'isometry')


def _area(sx, n):
    y0, y1, x0, x1 = sx.int(n + 'y0'), sx.int(n + 'y1'), sx.int(n + 'x0'), sx.int(n + 'x1')
    sx.assume(y0 <= y1)
    sx.assume(x0 <= x1)
    return Area((y0, y1), (x0, x1))


def _contains(a, p):
    # oracle membership, no python short-circuit
    return sym_and(a.ys[0] <= p.y, p.y <= a.ys[1], a.xs[0] <= p.x, p.x <= a.xs[1])


def h_area(sx):
    t = _tf(sx, 't')
    a = _area(sx, 'a')
    p = _pos(sx, 'p')
    sx.cover('area')
    ta = t * a  # raises ValueError if the result were not a valid area -> uncaught -> violation
    sx.check(isinstance(ta, Area), 'area-type')
    sx.check(sym_and(ta.ys[0] <= ta.ys[1], ta.xs[0] <= ta.xs[1]), 'valid-area')
    tp = t * p
    sx.check(_contains(ta, tp) == _contains(a, p), 'contains-equivariant')
    sx.check(bool(ta.contains(tp)) == bool(a.contains(p)), 'contains-equivariant-real')
    odd = TURNS[t.orientation] % 2 == 1
    if odd:
        sx.check(sym_and(ta.height == a.width, ta.width == a.height), 'extent-swapped')
    else:
        sx.check(sym_and(ta.height == a.height, ta.width == a.width), 'extent-kept')
    sx.check(sym_and(a.height == a.ys[1] - a.ys[0] + 1, a.width == a.xs[1] - a.xs[0] + 1, a.height >= 1), 'extent-def')
    # orientation alone and translation alone
    oa = t.orientation * a
    op = t.orientation * p
    sx.check(_contains(oa, op) == _contains(a, p), 'rotation-equivariant')
    pa = t.position + a
    pp = t.position + p
    sx.check(_contains(pa, pp) == _contains(a, p), 'translation-equivariant')
    inv = (-t) * ta
    sx.check(sym_and(inv.ys[0] == a.ys[0], inv.ys[1] == a.ys[1], inv.xs[0] == a.xs[0], inv.xs[1] == a.xs[1]), 'inverse-restores')


def h_area_after_move(sx):
    """a pose object that has been MOVED IN PLACE (the way Agent.position / Agent.orientation setters move the agent's transform) acts like a
    freshly built pose: nothing may remember what the object did before"""
    y, x, y2, x2 = (sx.int(n, -3, 3) for n in ('y', 'x', 'y2', 'x2'))
    o, o2 = sx.choice('o', ORS), sx.choice('o2', ORS)
    ay, ax = sx.int('ay', -2, 2), sx.int('ax', -2, 2)
    mk = lambda: Area((ay, ay + 1), (ax, ax + 2))
    t = Transform(Position(y, x), o)
    first = t * mk()
    p1 = t * Position(ay, ax)
    via = sx.choice('via', ['transform', 'agent'])
    if via == 'transform':
        t.position = Position(y2, x2)
        t.orientation = o2
    else:
        from gym_gridverse.agent import Agent
        ag = Agent(Position(y, x), o)
        ag.transform * mk()
        ag.position = Position(y2, x2)
        ag.orientation = o2
        t = ag.transform
    sx.cover('moved-in-place')
    got = t * mk()
    want = Transform(Position(y2, x2), o2) * mk()
    sx.check(sym_and(got.ys[0] == want.ys[0], got.ys[1] == want.ys[1], got.xs[0] == want.xs[0], got.xs[1] == want.xs[1]),
             'moved-pose-acts-like-a-fresh-one-on-areas', f'{got} vs {want}')
    gp, wp = t * Position(ay, ax), Transform(Position(y2, x2), o2) * Position(ay, ax)
    sx.check(_eqpos(gp, wp.y, wp.x), 'moved-pose-acts-like-a-fresh-one-on-positions')
    back = (-t) * got
    sx.check(sym_and(back.ys[0] == ay, back.ys[1] == ay + 1, back.xs[0] == ax, back.xs[1] == ax + 2), 'inverse-of-the-moved-pose-restores-the-area')


def mk_area_positions(hh, ww):
    def h(sx):
        """the set of positions of t*A is exactly the image of the positions of A (bounded extents)"""
        # Area.positions iterates range(): coordinates must be concrete there, so offsets are bounded
        t = Transform(Position(sx.int('ty', -1, 1), sx.int('tx', -1, 1)), sx.choice('to', ORS))
        y0, x0 = sx.int('y0', -1, 1), sx.int('x0', -1, 1)
        a = Area((y0, y0 + hh - 1), (x0, x0 + ww - 1))
        sx.cover('area-positions')
        ps = list(a.positions())
        sx.check(len(ps) == hh * ww, 'count')
        want = {(int(y0) + i, int(x0) + j) for i in range(hh) for j in range(ww)}
        sx.check({(int(p.y), int(p.x)) for p in ps} == want, 'positions-are-exactly-the-cells-of-the-area')
        ta = t * a
        img = [t * p for p in ps]
        tps = list(ta.positions())
        sx.check(len(tps) == len(img), 'image-count')
        for q in img:  # image subset of positions(t*A); equal finite cardinalities + injectivity => equality
            sx.check(sym_or(*[_eqpos(q, r.y, r.x) for r in tps]), 'image-in-transformed')
        for r in tps:
            sx.check(sym_or(*[_eqpos(q, r.y, r.x) for q in img]), 'transformed-in-image')
        # border / inside partition 'all'
        border = list(a.positions('border'))
        inside = list(a.positions('inside'))
        # (no count law: for 1-high/1-wide areas 'border' lists cells twice, which the property does not forbid)
        for p in ps:
            sx.check(sym_or(*[_eqpos(q, p.y, p.x) for q in border + inside]), 'border-inside-cover')
        for p in border:
            sx.check(sym_or(p.y == a.ymin, p.y == a.ymax, p.x == a.xmin, p.x == a.xmax), 'border-on-edge')
        for p in inside:
            sx.check(sym_and(a.ymin < p.y, p.y < a.ymax, a.xmin < p.x, p.x < a.xmax), 'inside-strict')
    return h


def h_next_position(sx):
    p = _pos(sx, 'p')
    o = sx.choice('o', ORS)
    a = sx.choice('a', list(Action))
    sx.cover('next-position')
    n = get_next_position(p, o, a)
    unit = {Action.MOVE_FORWARD: (-1, 0), Action.MOVE_BACKWARD: (1, 0), Action.MOVE_LEFT: (0, -1), Action.MOVE_RIGHT: (0, 1)}
    if a in unit:
        e = Transform(p, o) * Position(*unit[a])
        sx.check(_eqpos(n, e.y, e.x), 'agrees-with-pose-algebra')
        ey, ex = rot(TURNS[o], *unit[a])
        sx.check(_eqpos(n, p.y + ey, p.x + ex), 'explicit')
        sx.check(Position.manhattan_distance(n, p) == 1, 'unit-distance')
    else:
        sx.check(_eqpos(n, p.y, p.x), 'non-move-identity')
    ag = Agent(p, o)
    f = ag.front()
    ey, ex = rot(TURNS[o], -1, 0)
    sx.check(_eqpos(f, p.y + ey, p.x + ex), 'front')
    g = get_next_position(p, o, Action.MOVE_FORWARD)
    sx.check(_eqpos(f, g.y, g.x), 'front-is-forward-move')


def mk_boundary(d):
    def h(sx):
        p = _pos(sx, 'p')
        b = get_manhattan_boundary(p, d)
        sx.cover('boundary')
        sx.check(len(b) == 4 * d, 'count')
        for q in b:
            sx.check(Position.manhattan_distance(p, q) == d, 'distance')
        for i in range(len(b)):
            for j in range(i + 1, len(b)):
                sx.check(sym_or(b[i].y != b[j].y, b[i].x != b[j].x), 'distinct')
        # completeness: every cell at distance d is in the list
        q = _pos(sx, 'q')
        sx.assume(abs(q.y - p.y) + abs(q.x - p.x) == d)
        sx.check(sym_or(*[_eqpos(r, q.y, q.x) for r in b]), 'complete')
    return h


def h_boundary_invalid(sx):
    p = _pos(sx, 'p')
    d = sx.int('d', -3, 0)
    sx.cover('boundary-invalid')
    try:
        get_manhattan_boundary(p, d)
    except ValueError:
        sx.check(True, 'rejects')
    else:
        sx.fail('accepts-nonpositive-distance')


class Tok(GridObject, register=False):
    state_index = 0
    color = None
    blocks_movement = False
    blocks_vision = False
    holdable = False

    def __init__(self, y, x):
        self.y, self.x = y, x

    @classmethod
    def can_be_represented_in_state(cls):
        return False

    @classmethod
    def num_states(cls):
        return 1

    def __eq__(self, other):  # the same token or an equal copy of it
        return isinstance(other, Tok) and (other.y, other.x) == (self.y, self.x)

    def __hash__(self):
        return hash((self.y, self.x))

    def __repr__(self):
        return f'T{self.y}{self.x}'


def mk_grid_rotation(H, W):
    def h(sx):
        o = sx.choice('o', ORS)
        toks = [[Tok(y, x) for x in range(W)] for y in range(H)]
        g = Grid([list(r) for r in toks])
        sx.cover('grid-rotation')
        r = g * o
        k = TURNS[o]
        eh, ew = (H, W) if k % 2 == 0 else (W, H)
        sx.check(r.shape.height == eh and r.shape.width == ew, 'shape')
        # the agent-frame convention: observation = subgrid * orientation, so that cell (y,x) of G
        # lands where rotating by the INVERSE of o sends it (frame change), with index offsets
        for y in range(H):
            for x in range(W):
                if k == 0:
                    ny, nx = y, x
                elif k == 1:  # agent faces RIGHT: world x becomes up
                    ny, nx = W - 1 - x, y
                elif k == 2:
                    ny, nx = H - 1 - y, W - 1 - x
                else:
                    ny, nx = x, H - 1 - y
                sx.check(r[ny, nx] == toks[y][x], 'placement')
        cells = [c for row in r.objects for c in row]
        sx.check(len(cells) == H * W and len(set(cells)) == H * W, 'multiset')
        back = r * (-o)
        sx.check(back.shape == g.shape and all(back[y, x] == toks[y][x] for y in range(H) for x in range(W)), 'inverse-restores')
        sx.check(all(g[y, x] == toks[y][x] for y in range(H) for x in range(W)), 'input-unchanged')
    return h


def mk_grid_rotation_compose(H, W):
    def h(sx):
        o = sx.choice('o', ORS)
        o2 = sx.choice('o2', ORS)
        toks = [[Tok(y, x) for x in range(W)] for y in range(H)]
        g = Grid([list(r) for r in toks])
        sx.cover('grid-rotation-compose')
        a = (g * o) * o2
        b = g * (o * o2)
        sx.check(a.shape == b.shape and all(a[p] == b[p] for p in a.area.positions()), 'compose')
        c = o * g
        d = g * o
        sx.check(c.shape == d.shape and all(c[p] == d[p] for p in c.area.positions()), 'rmul')
    return h


def obligations(tier):
    obs = _obligations(tier)
    # the unbounded integer laws are re-decided by a second solver: every verification condition of the first paths is exported as SMT-LIB2
    # and handed to the cvc5 binary (quick: 12 per obligation, thorough: 200)
    for o in obs:
        if not o.name.startswith(('grid-rotation', 'area-positions')):
            o.cross_check = 12 if tier == 'quick' else 200
    return obs


def _obligations(tier):
    obs = [
        Obligation('orientation-group', h_orientation_group),
        Obligation('orientation-action', h_orientation_action),
        Obligation('position-algebra', h_position_algebra),
        Obligation('transform', h_transform),
        Obligation('area', h_area),
        Obligation('area-after-in-place-move', h_area_after_move, dict(coordinates='-3..3', area='2x3 at offsets -2..2')),
        Obligation('next-position', h_next_position),
    ]
    amax = 3 if tier == 'quick' else 4
    for hh in range(1, amax + 1):
        for ww in range(1, amax + 1):
            obs.append(Obligation(f'area-positions-{hh}x{ww}', mk_area_positions(hh, ww), dict(h=hh, w=ww)))
    smax = 4 if tier == 'quick' else 6
    for H in range(1, smax + 1):
        for W in range(1, smax + 1):
            obs.append(Obligation(f'grid-rotation-{H}x{W}', mk_grid_rotation(H, W), dict(H=H, W=W)))
            obs.append(Obligation(f'grid-rotation-compose-{H}x{W}', mk_grid_rotation_compose(H, W), dict(H=H, W=W)))
    return obs
