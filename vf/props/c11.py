"""C11 Stochastic dynamics obey their rules for every random outcome."""
import itertools

from gym_gridverse.action import Action
from gym_gridverse.envs.transition_functions import move_obstacles, teleport
from gym_gridverse.geometry import Orientation, Position
from gym_gridverse.grid_object import (Color, Exit, Floor, MovingObstacle,
                                       NoneGridObject, Telepod, Wall)

from ..runner import Obligation
from ..stubs import ORS, SymRng, lazy_state, pre_held, same_object
from ..symx import sym_and
from .common import ACTIONS, post_cells

PROPERTY = 'C11'
LEVEL = 'other'
SCOPE = ('move_obstacles and teleport with every rng draw a symbolic variable constrained only by the numpy Generator contract: the '
         'universal part is asserted on every path; the possibility part (every free neighbour / every partner telepod can occur) is '
         'decided by feasibility: the set of outcomes over all explored, solver-satisfiable paths must equal the oracle set')
BOUNDS = {
    'quick': dict(shared_objects='1x3 and 2x2 grids in which one Telepod object occupies two or more cells', move_obstacles='every layout over {Floor, MovingObstacle, Wall, Exit} of 1x1,1x2,2x1,1x3,3x1,2x2,1x4,4x1 and over '
                  '{Floor, MovingObstacle, Wall} of 2x3, 3x2; 3x3 over {Floor, Wall, MovingObstacle} with at most 1 obstacle; every outcome of every draw; '
                  'all 8 actions x 4 headings on shapes with <=4 cells, one action/heading beyond (the function never reads them)',
                  teleport='every layout over {Floor, Wall, Telepod(RED), Telepod(BLUE)} of shapes with <=6 cells and 3x3 over {Floor, Telepod(RED)} with <=3 telepods; '
                  'agent on every cell, all actions on shapes <=4 cells'),
    'thorough': dict(move_obstacles='as quick plus 3x3 with at most 2 obstacles and 2x4/4x2 over 3 objects', teleport='as quick plus 2x4 over {Floor, Telepod(RED), Telepod(BLUE)} and 3x3 with <=4 telepods over 2 colours'),
}
OUTSIDE = 'larger grids / more obstacles (all 4^9 layouts of 3x3 are ~10^6-10^7 paths); no distributional claim (uniformity) is made'
ASSUMPTIONS = ['numpy Generator contract as stubbed by SymRng: choice(n) returns any index in [0,n), raises ValueError for n=0']
STUBS = ['LazyRows', 'SymRng']
TIME_LIMIT = {'quick': 240, 'thorough': 1500}

OBS4 = [('Floor', Floor), ('MovingObstacle', MovingObstacle), ('Wall', Wall), ('Exit(NONE)', Exit)]
OBS3 = OBS4[:3]
NEIGH = [(-1, 0), (0, 1), (1, 0), (0, -1)]


def orders(start):
    """processing orders of the obstacles that the oracle accepts (the property says "at its turn": no order is prescribed):
    every permutation up to 4 obstacles, beyond that row-major / column-major and their reverses"""
    if len(start) <= 4:
        return [list(p) for p in itertools.permutations(start)]
    col = sorted(start, key=lambda p: (p[1], p[0]))
    out = []
    for o in (list(start), list(reversed(start)), col, list(reversed(col))):
        if o not in out:
            out.append(o)
    return out


def oracle_outcomes(layout, H, W, order=None):
    """all possible final obstacle placements for one processing order: set of tuples (final position per obstacle, in that order)"""
    start = [(y, x) for y in range(H) for x in range(W) if layout[y][x] == 'O']
    if order is not None:
        start = list(order)

    def rec(grid, k):
        if k == len(start):
            yield ()
            return
        y, x = start[k]
        free = [(y + dy, x + dx) for dy, dx in NEIGH if 0 <= y + dy < H and 0 <= x + dx < W and grid[y + dy][x + dx] == 'F']
        if not free:
            for rest in rec(grid, k + 1):
                yield ((y, x),) + rest
            return
        for q in free:
            g = [list(r) for r in grid]
            g[y][x], g[q[0]][q[1]] = 'F', 'O'
            for rest in rec(g, k + 1):
                yield (q,) + rest

    return set(rec([list(r) for r in layout], 0))


def mk_obstacles(H, W, sigma, max_obstacles=None, all_actions=True):
    letter = {'Floor': 'F', 'MovingObstacle': 'O', 'Wall': 'W', 'Exit(NONE)': 'E'}

    def h(sx):
        state, world = lazy_state(sx, H, W, sigma, held_sigma=[], orientations=ORS if all_actions else ORS[:1])
        a = sx.choice('a', ACTIONS if all_actions else ACTIONS[:1])
        if max_obstacles is not None:
            n = 0
            for y in range(H):
                for x in range(W):
                    n = n + (world.code(y, x) == 1)
            sx.assume(n <= max_obstacles)
        rng = SymRng(sx)
        pose0 = (state.agent.position.y, state.agent.position.x, state.agent.orientation)
        move_obstacles(state, a, rng=rng)
        cells = post_cells(state)
        pre = [[world.make(y, x) for x in range(W)] for y in range(H)]
        layout = tuple(tuple(letter[world.label(y, x)] for x in range(W)) for y in range(H))
        post = [[cells[(y, x)] if (y, x) in cells else world.make(y, x) for x in range(W)] for y in range(H)]
        start = [(y, x) for y in range(H) for x in range(W) if isinstance(pre[y][x], MovingObstacle)]
        sx.cover('obstacles-%d' % len(start), nontrivial=bool(start))
        finals = [(y, x) for y in range(H) for x in range(W) if isinstance(post[y][x], MovingObstacle)]
        sx.check(len(finals) == len(start), 'obstacle-count', f'{start} -> {finals}')
        # global decision: the final placement must be one of the oracle's outcomes
        final_sets = set()
        for order in orders(start):
            final_sets |= {frozenset(o) for o in oracle_outcomes(layout, H, W, order)}
        sx.check(frozenset(finals) in final_sets, 'final-placement-is-a-legal-outcome-of-some-processing-order', f'layout={layout} finals={finals}')
        # everything that is not an obstacle/floor swap is untouched; cells that lost/gained an obstacle became Floor/Obstacle
        for y in range(H):
            for x in range(W):
                p, q = pre[y][x], post[y][x]
                if same_object(p, q):
                    continue
                legal = (isinstance(p, MovingObstacle) and isinstance(q, Floor)) or (isinstance(p, Floor) and isinstance(q, MovingObstacle))
                sx.check(legal, 'only-obstacle-floor-swaps', f'({y},{x}): {p!r} -> {q!r}')
        # instances: no obstacle object duplicated
        obj = [post[y][x] for (y, x) in finals]
        sx.check(len({id(o) for o in obj}) == len(obj), 'no-duplicated-obstacle-instance')
        # agent untouched
        sx.check(sym_and(state.agent.position.y == pose0[0], state.agent.position.x == pose0[1]) and state.agent.orientation is pose0[2]
                 and isinstance(state.agent.grid_object, NoneGridObject), 'agent-unchanged')
        # existential bookkeeping: which final placements occur on some feasible path
        key = ('obst', layout)
        sx.bag.setdefault(key, set()).add(frozenset(finals))
    return h


def mk_obstacles_finalize(H, W):
    def fin(bag):
        out = []
        for (tag, layout), seen in bag.items():
            if tag != 'obst':
                continue
            start = [(y, x) for y in range(H) for x in range(W) if layout[y][x] == 'O']
            # possibility: for SOME processing order every legal outcome of that order occurs on some path
            best = None
            for order in orders(start):
                oracle = {frozenset(o) for o in oracle_outcomes(layout, H, W, order)}
                miss = oracle - seen
                if best is None or len(miss) < len(best):
                    best = miss
                if not miss:
                    break
            missing = best or set()
            if missing:
                # confirm on the real function by exhausting scripted draws
                reach = brute_obstacles(layout, H, W)
                missing = missing - reach
                if missing and len(out) < 5:
                    out.append(dict(label='possible-destination-never-taken', confirmed=True,
                                    message=f'layout={layout}: legal final placements never produced for any draw: {sorted(map(sorted, missing))[:3]}',
                                    inputs=dict(inputs=dict(layout=[''.join(r) for r in layout]), notes={})))
        return out
    return fin


class ScriptRng:
    """enumeration helper for the confirmation step: choice(n) follows a script, records arities"""

    def __init__(self, script):
        self.script, self.i, self.arity = script, 0, []

    def _draw(self, n):
        if n <= 0:
            raise ValueError('a must be a positive integer unless no samples are taken')
        self.arity.append(n)
        v = self.script[self.i] if self.i < len(self.script) else 0
        self.i += 1
        return v

    def choice(self, a, *args, **k):
        if isinstance(a, int):
            return self._draw(a)
        seq = list(a)
        return seq[self._draw(len(seq))]

    def integers(self, low, high=None, size=None, dtype=int, endpoint=False):
        if high is None:
            low, high = 0, low
        n = high - low + (1 if endpoint else 0)
        if n <= 0:
            raise ValueError('low >= high')
        return low + self._draw(n)


def brute_obstacles(layout, H, W):
    from gym_gridverse.agent import Agent
    from gym_gridverse.grid import Grid
    from gym_gridverse.state import State
    mk = {'F': Floor, 'O': MovingObstacle, 'W': Wall, 'E': Exit}
    seen = set()
    todo = [()]
    while todo:
        script = todo.pop()
        st = State(Grid([[mk[c]() for c in row] for row in layout]), Agent(Position(0, 0), Orientation.F))
        rng = ScriptRng(script)
        move_obstacles(st, Action.MOVE_FORWARD, rng=rng)
        if len(rng.arity) > len(script):
            k = len(script)
            for v in range(rng.arity[k]):
                todo.append(script + (v,))
            continue
        seen.add(frozenset((y, x) for y in range(H) for x in range(W) if isinstance(st.grid[y, x], MovingObstacle)))
    return seen


# ---------------------------------------------------------------------------
# teleport

TEL4 = [('Floor', Floor), ('Wall', Wall), ('Telepod(RED)', lambda: Telepod(Color.RED)), ('Telepod(BLUE)', lambda: Telepod(Color.BLUE))]
TEL2 = [('Floor', Floor), ('Telepod(RED)', lambda: Telepod(Color.RED))]


def mk_teleport(H, W, sigma, max_telepods=None, all_actions=True):
    tel_idx = [i for i, e in enumerate(sigma) if e[0].startswith('Telepod')]

    def h(sx):
        state, world = lazy_state(sx, H, W, sigma, held_sigma=[], orientations=ORS if all_actions else ORS[:1])
        a = sx.choice('a', ACTIONS if all_actions else ACTIONS[:1])
        if max_telepods is not None:
            n = 0
            for y in range(H):
                for x in range(W):
                    for i in tel_idx:
                        n = n + (world.code(y, x) == i)
            sx.assume(n <= max_telepods)
        py, px, o = state.agent.position.y, state.agent.position.x, state.agent.orientation
        rng = SymRng(sx)
        teleport(state, a, rng=rng)
        ny, nx = state.agent.position.y, state.agent.position.x
        py, px = int(py), int(px)
        here = world.make(py, px)
        sx.check(state.agent.orientation is o and isinstance(state.agent.grid_object, NoneGridObject), 'heading-and-held-unchanged')
        cells = post_cells(state)
        for k, q in cells.items():
            sx.check(same_object(world.make(*k), q), 'grid-unchanged')
        if isinstance(here, Telepod):
            partners = [(y, x) for y in range(H) for x in range(W) if (y, x) != (py, px)
                        and isinstance(world.make(y, x), Telepod) and world.make(y, x).color is here.color]
        else:
            partners = []
        if partners:
            sx.cover('teleported')
            ny, nx = int(ny), int(nx)
            sx.check((ny, nx) in partners, 'lands-on-a-same-coloured-partner', f'from {(py, px)} to {(ny, nx)}, partners {partners}')
            layout = tuple(world.label(y, x) for y in range(H) for x in range(W))
            sx.bag.setdefault(('tel', layout, (py, px), tuple(partners), (H, W)), set()).add((ny, nx))
        else:
            sx.cover('not-teleported', nontrivial=isinstance(here, Telepod))
            sx.check(sym_and(ny == py, nx == px), 'not-displaced-otherwise')
    return h


def brute_teleport(layout, pos, shape):
    from gym_gridverse.agent import Agent
    from gym_gridverse.grid import Grid
    from gym_gridverse.state import State
    mk = dict(TEL4)
    cells = [mk[l] for l in layout]
    seen = set()
    for (H, W) in [shape]:
        k = 0
        while True:
            st = State(Grid([[cells[y * W + x]() for x in range(W)] for y in range(H)]), Agent(Position(*pos), Orientation.F))
            rng = ScriptRng((k,))
            try:
                teleport(st, Action.MOVE_FORWARD, rng=rng)
            except Exception:
                break
            if not rng.arity or k >= rng.arity[0]:
                break
            seen.add((st.agent.position.y, st.agent.position.x))
            k += 1
    return seen


def build_aliased(codes, H, W, pos):
    """codes per cell: 0 Floor, 1 THE shared Telepod(RED) instance, 2 a Telepod(RED) of its own, 3 a Telepod(BLUE) of its own"""
    from gym_gridverse.agent import Agent
    from gym_gridverse.grid import Grid
    from gym_gridverse.state import State
    shared = Telepod(Color.RED)
    mk = {0: Floor, 1: lambda: shared, 2: lambda: Telepod(Color.RED), 3: lambda: Telepod(Color.BLUE)}
    return State(Grid([[mk[codes[y * W + x]]() for x in range(W)] for y in range(H)]), Agent(Position(*pos), Orientation.F))


def mk_teleport_aliased(H, W):
    """the same Telepod OBJECT placed in several cells (a grid built from a palette of objects): positions, not object identities, decide
    where the partners are"""
    def h(sx):
        codes = tuple(int(sx.int(f'c{i}', 0, 3)) for i in range(H * W))
        sx.assume(sum(1 for c in codes if c == 1) >= 2)
        py, px = int(sx.int('py', 0, H - 1)), int(sx.int('px', 0, W - 1))
        state = build_aliased(codes, H, W, (py, px))
        colour = {1: 'R', 2: 'R', 3: 'B'}
        here = codes[py * W + px]
        partners = [(y, x) for y in range(H) for x in range(W) if (y, x) != (py, px) and here and colour.get(codes[y * W + x]) == colour[here]]
        rng = SymRng(sx)
        teleport(state, Action.MOVE_FORWARD, rng=rng)
        ny, nx = int(state.agent.position.y), int(state.agent.position.x)
        if partners:
            sx.cover('teleported-among-shared-instances')
            sx.check((ny, nx) in partners, 'lands-on-a-same-coloured-partner', f'cells {codes} from {(py, px)} to {(ny, nx)}, partners {partners}')
            sx.bag.setdefault(('tel-aliased', codes, (py, px), tuple(partners), (H, W)), set()).add((ny, nx))
        else:
            sx.cover('not-teleported', nontrivial=bool(here))
            sx.check((ny, nx) == (py, px), 'not-displaced-otherwise')
    return h


def teleport_aliased_finalize(bag):
    out = []
    for key, seen in bag.items():
        if key[0] != 'tel-aliased':
            continue
        _, codes, pos, partners, (H, W) = key
        missing = set(partners) - seen
        if missing:  # confirm on the real function with scripted draws
            k = 0
            while True:
                st = build_aliased(codes, H, W, pos)
                rng = ScriptRng((k,))
                try:
                    teleport(st, Action.MOVE_FORWARD, rng=rng)
                except Exception:
                    break
                if not rng.arity or k >= rng.arity[0]:
                    break
                missing.discard((st.agent.position.y, st.agent.position.x))
                k += 1
        if missing and len(out) < 5:
            out.append(dict(label='partner-never-reached', confirmed=True,
                            message=f'cells={codes} (1 = one shared Telepod object) agent={pos}: partner telepods never chosen for any draw: {sorted(missing)}',
                            inputs=dict(inputs=dict(cells=list(codes), agent=list(pos)), notes={})))
    return out


def teleport_finalize(bag):
    out = []
    for key, seen in bag.items():
        if key[0] != 'tel':
            continue
        _, layout, pos, partners, shape = key
        missing = set(partners) - seen
        if missing:
            missing -= brute_teleport(layout, pos, shape)  # confirm on the real function with scripted draws
        if missing and len(out) < 5:
            out.append(dict(label='partner-never-reached', confirmed=True,
                            message=f'layout={layout} agent={pos}: partner telepods never chosen for any draw: {sorted(missing)}',
                            inputs=dict(inputs=dict(layout=list(layout), agent=list(pos)), notes={})))
    return out


def obligations(tier):
    q = tier == 'quick'
    from .c18 import h_boundary_invalid, mk_boundary
    obs = [Obligation('neighbourhood-distance-1', mk_boundary(1), dict(helper='geometry.get_manhattan_boundary', d=1, coordinates='unbounded integers')),
           Obligation('neighbourhood-invalid-distance', h_boundary_invalid)]
    if not q:
        obs += [Obligation(f'neighbourhood-distance-{d}', mk_boundary(d), dict(d=d)) for d in (2, 3, 4)]
    for (H, W) in [(1, 1), (1, 2), (2, 1), (1, 3), (3, 1), (2, 2)]:
        obs.append(Obligation(f'move_obstacles-{H}x{W}-all-actions', mk_obstacles(H, W, OBS4), dict(H=H, W=W, alphabet=[e[0] for e in OBS4], actions='all', headings='all'),
                              finalize=mk_obstacles_finalize(H, W)))
    for (H, W) in [(1, 4), (4, 1)]:
        obs.append(Obligation(f'move_obstacles-{H}x{W}', mk_obstacles(H, W, OBS4, all_actions=False), dict(H=H, W=W, alphabet=[e[0] for e in OBS4]),
                              finalize=mk_obstacles_finalize(H, W)))
    for (H, W) in [(2, 3), (3, 2)] + ([] if q else [(2, 4), (4, 2)]):
        obs.append(Obligation(f'move_obstacles-{H}x{W}', mk_obstacles(H, W, OBS3, all_actions=False), dict(H=H, W=W, alphabet=[e[0] for e in OBS3]),
                              finalize=mk_obstacles_finalize(H, W)))
    k = 1 if q else 2
    obs.append(Obligation(f'move_obstacles-3x3-max{k}', mk_obstacles(3, 3, OBS3, max_obstacles=k, all_actions=False),
                          dict(H=3, W=3, alphabet=[e[0] for e in OBS3], max_obstacles=k), finalize=mk_obstacles_finalize(3, 3)))
    for (H, W) in [(1, 1), (1, 2), (2, 1), (1, 3), (3, 1), (2, 2)]:
        obs.append(Obligation(f'teleport-{H}x{W}-all-actions', mk_teleport(H, W, TEL4), dict(H=H, W=W, alphabet=[e[0] for e in TEL4], actions='all'),
                              finalize=teleport_finalize))
    for (H, W) in [(2, 3), (3, 2)] + ([] if q else [(2, 4)]):
        sg = TEL4 if H * W <= 6 else TEL4[:1] + TEL4[2:]  # 8 cells: without Wall
        obs.append(Obligation(f'teleport-{H}x{W}', mk_teleport(H, W, sg, all_actions=False), dict(H=H, W=W, alphabet=[e[0] for e in sg]),
                              finalize=teleport_finalize))
    k = 3 if q else 4
    for (H, W) in [(1, 3), (2, 2)]:
        obs.append(Obligation(f'teleport-{H}x{W}-one-telepod-object-in-several-cells', mk_teleport_aliased(H, W), dict(H=H, W=W, cells='Floor, the shared RED telepod, own RED telepod, own BLUE telepod'),
                              finalize=teleport_aliased_finalize))
    obs.append(Obligation(f'teleport-3x3-max{k}', mk_teleport(3, 3, TEL2 if q else TEL4[:1] + TEL4[2:], max_telepods=k, all_actions=False),
                          dict(H=3, W=3, max_telepods=k), finalize=teleport_finalize))
    return obs
