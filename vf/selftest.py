"""Engine self-test: proxy operators against Python, known path counts, known counterexamples."""
import itertools
import z3

from . import symx
from .symx import sym_and, Explorer


def _ops_diff():
    """differential test of proxy operators against python on fixed operands"""
    vals = [-7, -3, -1, 0, 1, 2, 5, 9]
    bad = []
    binops = [
        ('add', lambda a, b: a + b), ('sub', lambda a, b: a - b), ('mul', lambda a, b: a * b),
        ('rsub', lambda a, b: 3 - a + b), ('lt', lambda a, b: a < b), ('le', lambda a, b: a <= b),
        ('gt', lambda a, b: a > b), ('ge', lambda a, b: a >= b), ('eq', lambda a, b: a == b),
        ('ne', lambda a, b: a != b), ('min', lambda a, b: min(a, b)), ('max', lambda a, b: max(a, b)),
        ('abs', lambda a, b: abs(a - b)), ('chain', lambda a, b: 0 <= a < b),
        ('fdiv3', lambda a, b: (a + b) // 3), ('mod4', lambda a, b: (a - b) % 4),
        ('pow2', lambda a, b: a ** 2 + b ** 2), ('neg', lambda a, b: -a + b),
        ('sorted', lambda a, b: sorted([a, b, 1])[1]), ('tdiv', lambda a, b: (a + 0) / 4 < b),
        ('bool', lambda a, b: bool(a) and not b), ('sum', lambda a, b: sum([a, b, a])),
    ]
    for name, f in binops:
        for va, vb in itertools.product(vals, vals):
            expect = f(va, vb)

            def h(sx, f=f, va=va, vb=vb, expect=expect):
                a = sx.int('a', va, va)
                b = sx.int('b', vb, vb)
                r = f(a, b)
                sx.check(r == expect, name)

            ex = Explorer(time_limit=20).explore(h)
            if ex.violations or not ex.exhausted or ex.checks_reached == 0:
                bad.append((name, va, vb))
    return bad


def _paths():
    bad = []

    def h1(sx):
        a = sx.int('a', 0, 9)
        b = sx.int('b', 0, 9)
        if a < b:
            if a + b == 9:
                sx.cover('x')
        sx.check(a + b <= 18, 'bound')

    ex = Explorer().explore(h1)
    if not (ex.paths == 3 and ex.exhausted and not ex.violations):
        bad.append(('h1', ex.stats()))

    def h2(sx):  # concretisation enumerates exactly the domain
        a = sx.int('a', -2, 3)
        l = [10, 11, 12, 13, 14, 15]
        sx.check(l[a] == 10 + (a if int(a) >= 0 else a + 6), 'idx')

    ex = Explorer().explore(h2)
    if not (ex.paths == 6 and ex.exhausted and not ex.violations):
        bad.append(('h2', ex.stats()))

    def h3(sx):  # known counterexample found, and replays
        a = sx.int('a')
        b = sx.int('b')
        sx.assume(a > 0)
        sx.assume(b > 0)
        sx.check(a * 3 + b * 5 != 47, 'cex')

    ex = Explorer().explore(h3)
    ok = len(ex.violations) == 1
    if ok:
        inp = ex.violations[0].inputs['inputs']
        ok = inp['a'] * 3 + inp['b'] * 5 == 47 and inp['a'] > 0 and inp['b'] > 0
        v, _ = symx.replay(h3, inp)
        ok = ok and v is not None
    if not ok:
        bad.append(('h3', ex.stats()))

    def h4(sx):  # unbounded validity, reals, vacuity of an unsat assumption
        x = sx.real('x')
        y = sx.real('y')
        sx.check((x + y) * 2 == 2 * x + 2 * y, 'lin')
        sx.assume(x > y)
        sx.assume(y > x)
        sx.fail('unreachable')

    ex = Explorer().explore(h4)
    if not (ex.exhausted and not ex.violations and ex.paths_assume == 1):
        bad.append(('h4', ex.stats()))

    def h5(sx):  # pickling keeps proxies symbolic
        import pickle
        a = sx.int('a', 0, 100)
        (b,) = pickle.loads(pickle.dumps((a,)))
        sx.check(b + 1 > a, 'pk')

    ex = Explorer().explore(h5)
    if not (ex.exhausted and ex.paths == 1 and not ex.violations):
        bad.append(('h5', ex.stats()))
    def h6(sx):  # empty bounds never give a vacuous pass; SymBool compared with ints
        n = sx.int('n', 0, 2)
        b = sx.bool('b')
        sx.check((b == 1) == b, 'bool-eq-1')
        sx.check((b != 0) == b, 'bool-ne-0')
        i = sx.int('i', 0, n - 1)   # empty when n == 0: that path is dropped
        sx.check(n > 0, 'reached-only-with-n>0')
        sx.check(i < n, 'in-range')

    ex = Explorer().explore(h6)
    if not (ex.exhausted and not ex.violations and ex.paths_assume >= 1):
        bad.append(('h6', ex.stats()))

    def h7(sx):
        x = sx.int('x', 5, 3)
        sx.fail('unreachable-empty-bounds')

    ex = Explorer().explore(h7)
    if not (ex.exhausted and not ex.violations and ex.checks_reached == 0):
        bad.append(('h7', ex.stats()))

    def h8(sx):  # define(): a fresh integer tied to a real by "nearest integer" (no feasibility query); a true and a false consequence
        from fractions import Fraction
        t = sx.real('t', -3, 3)
        r = sx.int('r', -4, 4)
        sx.define(sym_and(2 * t >= 2 * r - 1, 2 * t <= 2 * r + 1))
        sx.check(sym_and(r >= -3, r <= 3), 'nearest-integer-in-range')
        sx.check(r * 2 <= 2 * t, 'nearest-integer-is-not-the-floor')   # must be refuted (t = 0.4, r = 0 ... or t = -0.4)

    ex = Explorer().explore(h8)
    if not (len(ex.violations) == 1 and ex.violations[0].label == 'nearest-integer-is-not-the-floor'):
        bad.append(('h8', ex.stats()))
    return bad


def main(quiet=False):
    bad = _ops_diff() + _paths()
    if bad:
        print('SELFTEST FAILED', bad[:5])
        return 3
    if not quiet:
        print('selftest ok')
    return 0
