import os
import sys

REPO = os.environ.get('VERIF_REPO', '/repo')
if REPO not in sys.path:
    sys.path.insert(0, REPO)

# gym prints a deprecation banner on import; keep check output clean
import contextlib
import io

with contextlib.redirect_stderr(io.StringIO()):
    try:
        import gym  # noqa: F401
    except Exception:
        pass
