#!/bin/bash
# usage: tools/run_all.sh [quick|thorough] [ids...]  -- runs the registered checks one after another, prints a summary
cd "$(dirname "$0")/.."
tier="${1:-quick}"; shift || true
ids="${*:-C01 C02 C03 C04 C05 C06 C07 C08 C09 C10 C11 C12 C13 C14 C15 C16 C17 C18 C19 C20}"
for p in $ids; do
  t0=$(date +%s)
  out=$(./run $p --tier $tier 2>&1); rc=$?
  t1=$(date +%s)
  echo "$p exit=$rc wall=$((t1-t0))s $(echo "$out" | grep -E "tier=$tier" | sed 's/.*obligations=/obligations=/' | cut -d' ' -f1-3)"
  echo "$out" | grep -E "VIOLATION|ENGINE-ERROR|INCONCLUSIVE|KNOWN-FINDING" | cut -c1-200 | head -5
done
