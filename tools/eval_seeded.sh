#!/bin/bash
# usage: tools/eval_seeded.sh <dir-with-patch.diff-and-demo.py> <check id>...
# Confirms a seeded change (applies to /repo, suite still green, demo fails with / passes without) and runs the named checks against it.
set -u
D="$(readlink -f "$1")"; shift
cd /verif
git -C /repo diff --quiet || { echo "/repo dirty" >&2; exit 9; }
echo "--- demo on unchanged tree"; (cd /repo && /venv/bin/python -W ignore "$D/demo.py" 2>&1 | tail -2); echo "exit=$?"
git -C /repo apply "$D/patch.diff" || { echo "patch does not apply"; exit 9; }
trap 'git -C /repo checkout -- .' EXIT
echo "--- test suite with the change"; (cd /repo && /venv/bin/python -m pytest -q -p no:cacheprovider --timeout=900 2>&1 | tail -1)
echo "--- demo with the change"; (cd /repo && /venv/bin/python -W ignore "$D/demo.py" 2>&1 | tail -3; echo "exit=${PIPESTATUS[0]}")
for c in "$@"; do
  echo "--- check $c with the change"
  VERIF_EVIDENCE_DIR=/tmp/verif-mut-evidence ./run $c 2>&1 | grep -E "VIOLATION|counterexample|ENGINE|tier=" | head -4 | cut -c1-400
  echo "check_exit=${PIPESTATUS[0]}"
done
