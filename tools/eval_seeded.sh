#!/bin/bash
# usage: tools/eval_seeded.sh <dir-with-patch.diff-and-demo.py> <check id>...
# Confirms a seeded change and runs the named checks against it.  The change is applied to a scratch git worktree of /repo
# (under /tmp, removed afterwards), never to /repo itself; the checks are pointed at it through VERIF_REPO.
# SKIP_SUITE=1 skips the (slow) test-suite run.
set -u
D="$(readlink -f "$1")"; shift
cd /verif
WT="$(mktemp -d /tmp/seedwt-XXXXXX)"; rmdir "$WT"
git -C /repo worktree add -q --detach "$WT" HEAD || exit 9
trap 'git -C /repo worktree remove --force "$WT" 2>/dev/null; rm -rf "$WT"' EXIT
echo "--- demo on unchanged tree"; (cd "$WT" && PYTHONPATH="$WT" /venv/bin/python -W ignore "$D/demo.py" 2>&1 | tail -2; echo "exit=${PIPESTATUS[0]}")
git -C "$WT" apply "$D/patch.diff" || { echo "patch does not apply"; exit 9; }
if [ -z "${SKIP_SUITE:-}" ]; then
  echo "--- test suite with the change"; (cd "$WT" && PYTHONPATH="$WT" /venv/bin/python -m pytest -q -p no:cacheprovider --timeout=900 2>&1 | tail -1)
fi
echo "--- demo with the change"; (cd "$WT" && PYTHONPATH="$WT" /venv/bin/python -W ignore "$D/demo.py" 2>&1 | tail -3; echo "exit=${PIPESTATUS[0]}")
for c in "$@"; do
  echo "--- check $c with the change"
  out="$(VERIF_REPO="$WT" VERIF_EVIDENCE_DIR="$(mktemp -d /tmp/verif-mut-evidence-XXXXXX)" ./run $c 2>&1)"; rc=$?
  echo "$out" | grep -E "^VIOLATION" | head -2
  echo "$out" | grep -E "counterexample|ENGINE|INCONCLUSIVE" | head -3 | cut -c1-400
  echo "$out" | grep -E "tier=" | cut -c1-300
  echo "check_exit=$rc"
done
