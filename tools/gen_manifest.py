#!/usr/bin/env python3
"""Regenerates MANIFEST.json from the table below (single source of truth)."""
import json
import os

HERE = os.path.dirname(os.path.dirname(os.path.abspath(__file__)))
BASELINE = "cd /repo && /venv/bin/python -m pytest -ra -q -p no:cacheprovider --timeout=900 --continue-on-collection-errors"

TECH = 'symbolic execution of the real Python functions (own engine vf/symx.py: z3-backed proxies, every branch decided by z3, exhaustive path exploration within stated bounds, counterexample models replayed on the real code)'

# id -> (category, level text, level note, design ref)
CLAIMED = {
    'C18': ('proof', 'integer laws of the pose algebra are decided by z3 for ALL integers (orientations forked over their 4 values); '
            'grid rotation and Area.positions are decided for every shape/extent within stated bounds',
            'trusts z3, the proxy layer (self-tested on every run), CPython; python ints modelled exactly by mathematical integers', 'DESIGN.md §5 C18'),
}

CLAIMED['C08'] = ('other', 'bounded symbolic execution: the one-step kinematic law (move iff target in grid and non-blocking, turns rotate and never displace, nothing else changes the pose except teleport from a telepod) and one-step preservation of "agent in grid on a non-blocking cell" are decided by z3 for every pose, action, held item and every content of the cells, on all shapes within the bounds; the history claim follows by induction with C13',
                  'trusts z3, the proxy layer, the LazyRows/SymRng stubs (DESIGN.md §2.4) and the restated blocking table; shapes beyond the bound are outside the verdict', 'DESIGN.md §5 C08')

CLAIMED['C09'] = ('other', 'bounded symbolic execution: multiset conservation, absence of duplicated instances, the frame rule (which cell may change and how) and the exact pick/drop/swap oracle are decided by z3 on every path of every built-in transition function and shipped chain, for every pose, action, held item, draw and cell content within the bounds',
                  'trusts z3, the proxy layer, the LazyRows/LazyAgent/SymRng stubs; cells never read or written are unchanged by construction of the stub; shapes beyond the bound are outside', 'DESIGN.md §5 C09')
CLAIMED['C10'] = ('other', 'bounded symbolic execution: for every door and box the step touched, and for the faced cell always, the post-state equals the documented door/key/box rule (status changes iff faced ACTUATE and closed, or locked with a key of the door colour; boxes replaced by their content iff faced ACTUATE; held item unchanged), decided by z3 over all poses, actions, held items and cell contents within the bounds',
                  'trusts z3, the proxy layer, the LazyRows/LazyAgent stubs; the history-level safety claim is the inductive consequence of this one-step result', 'DESIGN.md §5 C10')

CLAIMED['C01'] = ('other', 'bounded symbolic execution of GridWorld.functional_step / functional_observation and the three membership predicates: per built-in transition function, per shipped chain and per local reward/termination component, z3 decides on every path that the step returns without raising, that everything the step touched stays inside the declared space, that the reward is a finite float and the flag a boolean; membership predicates are compared with an independent oracle on possibly ill-formed inputs; rejected actions raise ValueError and touch nothing. Closure of arbitrary compositions and histories follows by induction from per-component closure',
                  'trusts z3, the proxy layer, LazyRows/LazyAgent/SymRng; debug membership checks are ON only on the small fully symbolic grids (they scan every cell); scanning rewards are covered in C12', 'DESIGN.md §5 C01')

CLAIMED['C11'] = ('other', 'bounded symbolic execution with every rng draw a symbolic variable (numpy Generator contract only): on every path the final obstacle placement is one of the outcomes of the documented sequential rule and nothing else changes; teleport lands on a same-coloured partner or does not move. The possibility claims are decided by feasibility: the outcomes collected over all explored (solver-satisfiable) paths must equal the oracle set, and a missing outcome is confirmed by exhausting scripted draws on the real function',
                  'trusts z3, the proxy layer, LazyRows and the SymRng contract stub; no distributional claim; layouts beyond the bounds are outside', 'DESIGN.md §5 C11')

CLAIMED['C12'] = ('other', 'bounded symbolic execution with reward parameters as symbolic reals: each built-in reward/termination component equals an oracle restating its docstring for ALL parameter values (decided in linear real arithmetic) on next states produced by the real dynamics and on arbitrary next states; reduce_sum/reduce_any/reduce_all are decided parametrically with stub components returning fresh symbolic values; functional_step is shown to evaluate reward and termination on (state, action, returned next state), so the exit reward is paid exactly when exit termination fires',
                  'trusts z3, the proxy layer, the stubs; distance rewards are checked under their documented uniqueness precondition on the stated structured grids; reals stand for floats (no rounding claim)', 'DESIGN.md §5 C12')

CLAIMED['C13'] = ('other', 'bounded symbolic execution of each of the 8 reset functions with symbolic parameters and every rng draw a symbolic variable: on every path the call raises ValueError or returns a state satisfying the well-formedness and inventory oracle of the property; valid shipped-style parameter combinations must produce a state on some path (vacuity guard)',
                  'trusts z3, the proxy layer, the SymRng contract stub; shapes/counts beyond the bounds (shipped 9x9..13x13 rooms) are outside', 'DESIGN.md §5 C13')

CLAIMED['C05'] = ('other', 'bounded symbolic execution of the four observation functions on worlds of distinct token cells whose opacity is a symbolic boolean: for every pose, view area and occluder layout within the bounds z3 decides on every path that each observation cell is Hidden or is (by identity) the world cell given by an explicit rotation formula and lies in the grid, that shape, anchor, heading and held item are as documented, and that the fully transparent view shows every in-grid cell',
                  'trusts z3, the proxy layer, the Tok stub, SymRng; view areas are enumerated (they are handed to numpy), opacity and draws are symbolic; sizes beyond the bounds are outside', 'DESIGN.md §5 C05')
CLAIMED['C06'] = ('other', 'bounded symbolic execution with symbolic opacity per cell (all occluder layouts at once): non-interference by self-composition (replacing any hidden or out-of-view world cell by a fresh token with independent opacity yields the identical observation), own cell visible, connectivity of the visible set through transparent visible cells, monotonicity under clearing a visible opaque cell, and for the stochastic variant (every draw a symbolic real in [0,1)) containment in the deterministic ray-traced view and certainty for fully lit cells',
                  'trusts z3, the proxy layer, the Tok stub, SymRng; the ray geometry itself is executed concretely (float trigonometry, see C19)', 'DESIGN.md §5 C06')
CLAIMED['C07'] = ('other', 'bounded symbolic execution: the observation of the world turned by every quarter turn (grid and pose together, the turned world built from explicit index formulas) is cell-by-cell identical to the original observation, for the three deterministic observation functions, every pose, view area and occluder layout within the bounds (opacity symbolic)',
                  'trusts z3, the proxy layer, the Tok stub; sizes beyond the bounds are outside', 'DESIGN.md §5 C07')

CLAIMED['C03'] = ('other', 'bounded symbolic execution: on every path of functional_step, the observation functions and every local reward/termination component the input state is never written to and keeps the content of every cell it materialised; the returned next state shares no mutable object (grid, rows, cells incl. nested box contents, agent, transform, held item) with its input; fast_copy(S) equals, hashes like and shares nothing with S; the memoised helpers answer the same question equally after a symbolic choice of intervening calls (cache eviction, key collisions) and equal a fresh uncached computation',
                  'trusts z3, the proxy layer and the LazyRows copy contract (a pickle round trip of unread cells is a deep copy: concrete Python, not a solver verdict); intervening-call menus are finite and listed in the evidence', 'DESIGN.md §5 C03')
CLAIMED['C04'] = ('other', 'bounded symbolic execution of one inductive step of the stateful interface from an arbitrary invariant-satisfying pre-state (symbolic current state, memo absent or computed from it): reset / step / reads are compared with the functional interface on an equal copy with the same draws; the memo is invalidated by reset and step, computed at most once per state, repeated reads return the same object and draw nothing; the invariant "memo is None or belongs to the current state" is preserved, which covers all histories and read patterns by induction; OuterEnv delegates and converts exactly the inner state/observation',
                  'trusts z3, the proxy layer, the stubs; the observation function is wrapped to draw once per computation so that recomputation is observable', 'DESIGN.md §5 C04')

CLAIMED['C02'] = ('other', 'partial scope (DESIGN.md C02): bounded symbolic execution decides (1) rng threading - with the library generator replaced by a failing object and the global numpy/python generators fingerprinted, every path of every stochastic built-in uses only the generator it was given, composites forward the same generator object, GridWorld hands its own generator to reset/transition/observation; (2) order independence of set-valued reset parameters as a 2-safety property over symbolic permutations and symbolic draws; (3) determinism given the draws with the debug flag flipped. Cross-process equality and interleaving of live environments are only sampled by concrete side checks, which the level does not rest on',
                  'trusts z3, the proxy layer, SymRng/ReplayRng/OrderedSetStub; numpy default_rng(seed) itself is trusted to be deterministic', 'DESIGN.md §5 C02')

CLAIMED['C15'] = ('other', 'mixed: (a) the per-object converters of the three encodings are executed on an object with symbolic status and colour indices (type forked) and z3 decides lower <= value <= upper of the declared per-object space for all of them; (b) whole-state / whole-observation conversion, concretised at the numpy boundary, for states with a distinguished cell over the alphabet of the space, every pose and held item: shape, dtype kind, Space.contains and the gym Box/Dict space built by outer_space_to_gym_space; (c) the normalised agent pose for every position of shapes 2x2..6x6',
                  'trusts z3, the proxy layer, numpy, gym 0.26 Box.contains; whole grids beyond one distinguished cell rest on the cell-wise lemma of C16; type subsets beyond the listed family are outside', 'DESIGN.md §5 C15')
CLAIMED['C16'] = ('other', 'mixed, same machinery as C15: on pairs of objects with symbolic status/colour z3 decides that encodings are equal iff the objects are, that the default encoding is the index triple and that the no-overlap and compact channels use strictly ordered (hence disjoint) value ranges; the compact maps are checked to be exactly 0..n-1; real objects: ==/hash consistent with the encoding; cell-wise lemma (entry (y,x) is the encoding of the object in that cell for every position and every other content; agent marker exactly at the agent cell); changing one component of a state changes its representation, equal states have equal representations and hashes',
                  'trusts z3, the proxy layer, numpy; Box content is not part of object equality by design', 'DESIGN.md §5 C16')

CLAIMED['C20'] = ('other', 'partial scope (DESIGN.md C20): bounded symbolic execution of GymEnvironment / GymStateWrapper wrapped directly around OuterEnv(GridWorld) with a lazily symbolic inner state and a symbolic action index over permuted / partial action spaces: step(i) executes the i-th action and returns the representation of the observation of the functional next state, the inner reward and flag and an empty info, inside the advertised spaces; reset returns the observation of the fresh state; the state wrapper and representation switching behave as documented',
                  'trusts z3, the proxy layer, the stubs, gym 0.26.2 space classes; gym.make(<id>) and GymEnvironment.seed are outside (installed gym is 0.26, the repository targets gym<=0.21)', 'DESIGN.md §5 C20')

CLAIMED['C17'] = ('other', 'partial scope (DESIGN.md C17): for every shipped configuration the environment built by factory_env_from_data and one assembled in the harness from the named registry functions are compared by bounded symbolic execution - equal next states for a lazily symbolic state and action, equal reward / flag / observation for a symbolic agent pose and action on reset layouts, equal initial states for the same symbolic draws - and structurally (same functions, same bound parameters, unaccepted ones dropped; spaces; input dict unchanged; second build agrees); factory(name, **kw) binds exactly the accepted keywords for symbolic numeric parameters. Identity of packaged copies, id-to-file mapping and rejection of corrupted files are concrete side checks',
                  'trusts z3, the proxy layer, the stubs and the mini YAML reader (PyYAML is not installed in the sandbox); gym.make is outside', 'DESIGN.md §5 C17')

CLAIMED['C14'] = ('other', 'universal part by bounded symbolic execution of the real reset functions with every draw symbolic (one path per outcome of all draws); existential part per initial state: the successor relation is produced by the real GridWorld.functional_step of the shipped composition over every reachable (state, action, draw outcome), z3 fixedpoint (datalog) decides whether a rewarded exit is in the least fixpoint without passing through a terminating state, and the witness action/draw sequence is replayed on the real step function. One genuine defect (memory_rooms) is recorded as a known finding',
                  'trusts z3 (SMT and datalog engines), the proxy layer, SymRng/ScriptRng; the successor relation is obtained by executing the real step function on concrete states (the existential search itself is explicit-state, the solver decides the fixpoint); shapes beyond the bounds are outside', 'DESIGN.md §5 C14')

CLAIMED['C19'] = ('other', 'partial scope. Per-ray clauses by bounded symbolic execution of the real compute_ray for EVERY direction: sin/cos are stubbed by an arbitrary pair '
                  'constrained by |s|,|c|<=1, |s|+|c|>=1-2^-40; binary64 operations are over-approximated by exact real result +- a concrete rounding-error radius, round() by "a nearest integer"; '
                  'the index source is stubbed so that each consecutive pair of samples (i, i+1), sample 0 and the sample at the bound are decided separately (start / step / exit lemmas, composed by the '
                  'induction written in DESIGN.md). Fan clauses (coverage, unobstructed view, cache independence) by enumeration of the real fan functions: concrete side checks, not solver verdicts',
                  'trusts z3, the proxy layer, the float abstraction (IEEE-754 round-to-nearest error bound), the stub contract for sin/cos (checked on every enumerated fan angle) and the paper induction '
                  'from the three lemmas to the whole-ray clauses; areas/origins beyond the bound are outside the verdict', 'DESIGN.md §5 C19')

NOT_APPLICABLE = {
}

PENDING = 'check not built yet in this revision (planned, see DESIGN.md §7 build order); not claimed until its harness is committed'

ALL = [f'C{i:02d}' for i in range(1, 21)]


def main():
    checks = []
    for pid in ALL:
        if pid not in CLAIMED:
            continue
        cat, text, note, ref = CLAIMED[pid]
        checks.append(dict(
            property_id=pid,
            quick_cmd=f'./run {pid} --tier quick',
            thorough_cmd=f'./run {pid} --tier thorough',
            evidence_file=f'evidence/{pid}.json',
            replay_cmd_template=f'./run {pid} --replay {{path}}',
            engine='symx',
            level_claimed=dict(category=cat, text=text, design_ref=ref),
            level_note=note,
            technique=TECH,
        ))
    na = []
    for pid in ALL:
        if pid in CLAIMED:
            continue
        na.append(dict(property_id=pid, reason=NOT_APPLICABLE.get(pid, PENDING)))
    man = dict(
        version=1,
        setup_cmd='./run setup',
        hooks=dict(guard='GYM_GRIDVERSE_VERIF', enable='none needed: the checks import the unmodified package from /repo (duck-typed stubs only); the guard is read by nothing in /repo',
                   baseline_off_cmd=BASELINE, source_commits=[], add_only=True),
        engines=[dict(name='symx', path='vf/symx.py', serves_properties=sorted(CLAIMED),
                      kind_free_text='path-exploring symbolic executor for Python over z3 (proxies SymInt/SymBool/SymReal, DFS with re-execution, concretisation with exhaustive alternatives, replay of models on the real code)')],
        checks=checks,
        not_applicable=na,
        notes='exit 0 = every explored obligation held; exit 1 = replayed VIOLATION; exit 3 = engine/harness error (never a verdict). Inconclusive obligations (timeout/unknown) are printed and lower coverage.discharged.',
    )
    json.dump(man, open(os.path.join(HERE, 'MANIFEST.json'), 'w'), indent=1)
    print('claimed', sorted(CLAIMED), 'not_applicable', [n['property_id'] for n in na])


if __name__ == '__main__':
    main()
