#!/bin/bash
# usage: tools/with_patch.sh <patch.diff> <command...>   -- applies the patch to /repo, runs the command, always reverts
set -u
P="$(readlink -f "$1")"; shift
git -C /repo diff --quiet || { echo "/repo has uncommitted changes" >&2; exit 9; }
git -C /repo apply "$P" || { echo "patch does not apply" >&2; exit 9; }
VERIF_EVIDENCE_DIR="${VERIF_EVIDENCE_DIR:-/tmp/verif-mut-evidence}" "$@"; rc=$?
git -C /repo checkout -- . 
exit $rc
