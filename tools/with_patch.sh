#!/bin/bash
# usage: tools/with_patch.sh <patch.diff> <command...>
# Applies the patch to a scratch git worktree of /repo (under /tmp, removed afterwards) and runs the command with VERIF_REPO
# pointing at it; /repo itself is never touched, evidence goes to a scratch directory.
set -u
P="$(readlink -f "$1")"; shift
WT="$(mktemp -d /tmp/seedwt-XXXXXX)"; rmdir "$WT"
git -C /repo worktree add -q --detach "$WT" HEAD || exit 9
trap 'git -C /repo worktree remove --force "$WT" 2>/dev/null; rm -rf "$WT"' EXIT
git -C "$WT" apply "$P" || { echo "patch does not apply" >&2; exit 9; }
VERIF_REPO="$WT" VERIF_EVIDENCE_DIR="${VERIF_EVIDENCE_DIR:-$(mktemp -d /tmp/verif-mut-evidence-XXXXXX)}" "$@"
