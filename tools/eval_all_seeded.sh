#!/bin/bash
# usage: tools/eval_all_seeded.sh [jobs]   -- every seeded change under seeded/ against the check of its own property (suite run skipped:
# each change was confirmed suite-green when it was stored); prints one line per seed: DETECTED / MISSED
cd "$(dirname "$0")/.."
J="${1:-2}"
ls seeded | xargs -P "$J" -I{} bash -c 's={}; p=${s:0:3}; [ -f seeded/$s/check ] && p=$(cat seeded/$s/check); out=$(SKIP_SUITE=1 tools/eval_seeded.sh seeded/$s $p 2>&1); if echo "$out" | grep -q "^VIOLATION property=$p"; then echo "$s DETECTED $(echo "$out" | grep -c "^VIOLATION") $(echo "$out" | grep check_exit)"; else echo "$s MISSED $(echo "$out" | grep -E "check_exit|tier=" | tr "\n" " " | cut -c1-200)"; fi'
